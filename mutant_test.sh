#!/bin/bash
# usage: mutant_test.sh <patch.diff> <ID> [<ID>...]     (env SLOT=n for parallel use, CLEAN=1 to drop the build cache)
# Applies a patch to a scratch worktree of /repo (never /repo itself), runs the named quick
# checks against it, prints their verdict lines, removes the worktree. The build cache of
# the slot (/verif/.cache/mut<SLOT>) is reused between calls; CLEAN=1 removes it.
# VERIF_CHECK=<path to a check script> runs a snapshot of the harness instead of /verif/check.
set -u
PATCH="$(readlink -f "$1")"; shift
SLOT="${SLOT:-0}"
WT="/tmp/fvmut-wt-$SLOT"
git -C /repo worktree remove --force "$WT" >/dev/null 2>&1
rm -rf "$WT"
git -C /repo worktree add -q --detach "$WT" HEAD || exit 2
# patches made against an older commit: fall back to a 3-way apply
if ! git -C "$WT" apply "$PATCH" 2>/dev/null && ! git -C "$WT" apply -3 "$PATCH"; then echo "patch does not apply"; git -C /repo worktree remove --force "$WT"; exit 2; fi
export FLOUNDER_REPO="$WT"
export VERIF_DIR="/tmp/fvmut-verif-$SLOT"
rm -rf "$VERIF_DIR"; mkdir -p "$VERIF_DIR"
cp /verif/known_findings.json "$VERIF_DIR/" 2>/dev/null
export VERIF_CACHE="/verif/.cache/mut$SLOT"
mkdir -p "$VERIF_CACHE"
rc=0
for id in "$@"; do
  echo "=== $id against $(basename "$PATCH") ==="
  "${VERIF_CHECK:-/verif/check}" "$id" --tier "${TIER:-quick}" > "$VERIF_DIR/out.txt" 2>&1
  code=$?
  grep -E "^\[|VIOLATION|KNOWN|OK property|harness error|class=|^error|^scenario" "$VERIF_DIR/out.txt" | cut -c1-400 | head -12
  echo "exit=$code"
  [ $code -ne 0 ] && rc=$code
  if [ -n "${KEEP_REPLAYS:-}" ] && [ -d "$VERIF_DIR/replays" ]; then mkdir -p "$KEEP_REPLAYS"; cp "$VERIF_DIR"/replays/* "$KEEP_REPLAYS"/ 2>/dev/null; fi
done
rm -rf "$VERIF_DIR"
[ -n "${CLEAN:-}" ] && rm -rf "$VERIF_CACHE"
git -C /repo worktree remove --force "$WT"
exit $rc
