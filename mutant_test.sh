#!/bin/bash
# usage: mutant_test.sh <patch.diff> <ID> [<ID>...]
# Applies a patch to a scratch worktree of /repo (never /repo itself), runs the named quick
# checks against it, prints their verdict lines, removes the worktree and its build output.
set -u
PATCH="$(readlink -f "$1")"; shift
WT="$(mktemp -d /tmp/fvmut.XXXXXX)"
rmdir "$WT"
git -C /repo worktree add -q --detach "$WT" HEAD || exit 2
if ! git -C "$WT" apply "$PATCH"; then echo "patch does not apply"; git -C /repo worktree remove --force "$WT"; exit 2; fi
export FLOUNDER_REPO="$WT"
export VERIF_DIR="$(mktemp -d /tmp/fvmut-verif.XXXXXX)"
cp /verif/known_findings.json "$VERIF_DIR/" 2>/dev/null
export VERIF_CACHE="/verif/.cache/mut"
mkdir -p "$VERIF_CACHE"
for id in "$@"; do
  echo "=== $id against $(basename "$PATCH") ==="
  /verif/check "$id" --tier quick 2>&1 | grep -E "^\[|VIOLATION|KNOWN|OK property|harness error|class=" | head -12
  echo "exit=${PIPESTATUS[0]}"
done
TAG="$(echo -n "$FLOUNDER_REPO" | cksum | cut -d' ' -f1)"
rm -rf "$VERIF_CACHE/harness-target-$TAG" "$VERIF_CACHE/real-target-$TAG" "$VERIF_CACHE"/build-*"$TAG"* "$VERIF_DIR"
git -C /repo worktree remove --force "$WT"
