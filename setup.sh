#!/bin/bash
# Builds the harness and the real engine binary offline from files on disk, then runs the
# rules-model self-test (perft against published values).
set -e
cd "$(dirname "$0")"
./check --build-only
./check selftest rules
