#!/usr/bin/env python3
"""Generates MANIFEST.json from the table below (kept in one place so that it stays valid)."""
import json, subprocess

CLAIMED = {
 "C16": dict(level="fault_enumeration", design="4/C16",
   technique="deterministic simulation of the UCI process (stdin/stdout/exit seams) with end-of-input injected at every byte offset, transient read errors and undecodable lines; oracle = protocol transducer; real-binary fidelity runs",
   text="Every generated script is run once per byte offset at which the input can end (fault enumeration over the crash-point dimension, exhaustive per light script), each as one simulated engine process; output must match the protocol model and the process must terminate with status 0 within 8 reads after end of input. Sampled runs are repeated on the real binary over a real pipe.",
   note="Scripts are sampled; the stubs (reader, sink, exit) are trusted to behave like the OS facilities, checked by the real-binary runs; unknown lines exclude UCI command words."),
}

NOT_APPLICABLE = {
 "C01": "pure function of a position (move generation); no schedule, clock, I/O, fault or history enters - exhaustive/perft-style testing is a different family. Generator defects still surface through C03/C04, whose oracle is an independent rules model.",
 "C02": "pure function of (position, move); 'histories' are compositions of that function with nothing to schedule or break. The same code path is exercised against the rules model by C04.",
 "C08": "pure function of (position, depth) on a fresh engine without a clock; the only legitimate fault kind (a forgetful cache) legitimately changes which winning move is returned, so injecting it would alarm falsely. Value-level defects are caught by C05.",
 "C10": "constant lookup tables, pure functions of (square, occupancy); exhaustive enumeration is the right tool and is a different family.",
 "C14": "pure function of the placement; scratch accumulators are reset per call and no schedule or fault can land between reset and use (single thread, no re-entrancy).",
 "C17": "pure function of a position (quiescence move filter).",
}

def main():
    commits = subprocess.run(["git","-C","/repo","log","--format=%h %s","--grep=^verif hooks"],capture_output=True,text=True).stdout.strip().splitlines()
    checks=[]
    for pid,c in sorted(CLAIMED.items()):
        checks.append({
          "property_id": pid,
          "quick_cmd": f"./check {pid} --tier quick",
          "thorough_cmd": f"./check {pid} --tier thorough",
          "evidence_file": f"/verif/evidence/{pid}.json",
          "replay_cmd_template": f"./check {pid} --replay {{path}}",
          "engine": "fv",
          "level_claimed": {"category": c["level"], "text": c["text"], "design_ref": c["design"]},
          "level_note": c["note"],
          "technique": c["technique"],
        })
    props=[json.loads(l)["id"] for l in open("/verif/properties.jsonl")]
    na=[{"property_id":p,"reason":NOT_APPLICABLE[p]} for p in props if p in NOT_APPLICABLE]
    for p in props:
        if p not in CLAIMED and p not in NOT_APPLICABLE:
            na.append({"property_id":p,"reason":"not claimed yet: the simulated check for this property (DESIGN.md section 4) is not built in this commit"})
    m={
      "version":1,
      "setup_cmd":"./setup.sh",
      "hooks":{
        "guard":"flounder_verif",
        "enable":"RUSTFLAGS='--cfg flounder_verif' (set by /verif/harness/.cargo/config.toml; the harness compiles /repo/src/*.rs in place as modules of its own crate)",
        "baseline_off_cmd":"cd /repo && cargo test --workspace --no-fail-fast --offline",
        "source_commits":[c.split()[0] for c in commits],
        "add_only":True,
      },
      "engines":[{"name":"fv","path":"/verif/harness","serves_properties":sorted(CLAIMED),"kind_free_text":"hand-written single-process deterministic simulator (virtual clock, scripted stdin, captured stdout, exit seam, seeded key draws, cooperative cache faults) around the real engine sources; rules-of-chess and search reference models as oracles"}],
      "checks":checks,
      "not_applicable":na,
      "notes":"Exit 0 = held, 1 = VIOLATION line, 2 = harness error. VERIF_SEED (default 1) decides every run; VERIF_WORKERS changes only speed. Known findings: /verif/known_findings.json.",
    }
    json.dump(m,open("/verif/MANIFEST.json","w"),indent=1); open("/verif/MANIFEST.json","a").write("\n")
main()
