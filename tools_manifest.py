#!/usr/bin/env python3
"""Generates MANIFEST.json from the table below (kept in one place so that it stays valid)."""
import json, subprocess

CLAIMED = {
 "C03": dict(level="exploration", design="4/C03",
   technique="deterministic simulation of UCI sessions (simulated GUI playing games, virtual clock with per-run cost model, stall jumps, forced expiry at the first clock reads, seeded key draws, stale tables across games); oracle = independent rules-of-chess model",
   text="Seeded search over session histories and clock schedules: each sim is one engine process lifetime of 1-4 games; every go (depth, movetime incl. 0, clocks in four regimes) must be answered by exactly one bestmove, legal per the rules model and never 0000 while a legal move exists, without a crash; earlier games of the process are taken up again with and without ucinewgame. The schedule dimension (where the budget expires) is sampled by the cost model, the zero-budget corner is pinned by forced expiry.",
   note="Sampled sessions; legality judged by rules model R (perft-validated); depth-limited searches hitting the step cap are inconclusive unless they make no progress (400 000 nodes in a row without a quiescence node, a store attempt or an output line: reported as diverged); a clocked go that reaches the step cap is a violation. Also: tiny endgames to depth 5-7, position lines of 8-22 KB, searchmoves lists, design 13.9/13.10."),
 "C04": dict(level="exploration", design="4/C04",
   technique="deterministic simulation of UCI sessions, step-driven: histories of position commands compared field by field with an independent rules-of-chess model after every command; engine crash = violation; 5% re-run through the real uci_loop",
   text="Seeded histories of position commands (FENs written by the rules model with counters up to 6000, move lists up to 300 plies biased to special moves, stream-shape variation, look-alike pairs that differ in a castling right or the ep square within one session, kings capturing unmoved corner rooks, games of up to ~4000 plies read through the real input loop) inside one process; the engine board must equal the model's position after each.",
   note="Sampled histories; the oracle is the rules model R, validated by perft against published values."),
 "C05": dict(level="exploration", design="4/C05",
   technique="deterministic simulation of the searcher with seeded key draws and cooperative cache faults (probe pretends to miss, store refused); oracle = unpruned minimax over the engine's own full-window quiescence values",
   text="Sampled positions; each searched fault-free under two key sets and under five buggified-cache configurations; value must equal the reference and the move must attain it. Fixed-depth 4-5 runs accepted only when instrumentation shows no deeper cached result was reused.",
   note="Reference takes move generation, make_move, evaluation and quiescence as given; positions beyond the reference's node budget are skipped and counted; positions are sampled inputs (only key draws and cache faults are simulation)."),
 "C06": dict(level="fault_enumeration", design="4/C06",
   technique="deterministic simulation of the searcher: crash point = index of the clock read at which the deadline first reads expired, enumerated per position (exhaustively for small searches in the thorough tier), on a clock that jumps past a far deadline at that read and on an evenly running clock (1 ms per read, budget j ms); UCI sessions with a game history whose interrupted go lines also carry searchmoves/nodes/mate; oracle = reference minimax for the later completed search + audit of every cached claim + history-length invariant",
   text="For each sampled position the interruption point is enumerated over the clock reads of the search (the complete set of distinguishable interruption instants), singly and in sequences of 2-3; afterwards a completed search must report the reference value with an attaining move, every transposition-table claim must be true, and the repetition stack must be unchanged.",
   note="Exhaustive only in the crash-point dimension and only per sampled position; depth <= 3 (where the reference is unambiguous)."),
 "C07": dict(level="fault_enumeration", design="4/C07",
   technique="deterministic simulation with a virtual clock: forced expiry at enumerated clock reads and node-indexed deadlines (cost model), stall jumps, explosive-quiescence positions; poll-gap witness runs; oracle = nodes entered after the deadline <= 4096 (step cap at 64x)",
   text="Per position (ordinary, explosive-quiescence, single-legal-move) the deadline is placed at every early clock read, at log-spaced later reads, shortly before the end of each iteration and at seeded node counts, on fresh engines and after earlier (optionally clock-limited) searches on the same engine; after the virtual deadline at most B=4096 nodes may be entered, in World S and through go movetime in the real uci_loop. A clock-limited search that stops reading the clock is cut and judged by a witness run with the deadline inside the gap.",
   note="'Promptly' is taken as <= 4096 nodes (current code: 2); time bound asserted only without stall jumps."),
 "C09": dict(level="exploration", design="4/C09",
   technique="deterministic simulation of UCI sessions, step-driven: game histories with planted repetitions; per-successor repetition query and depth-1 search compared with a reference that knows the game-history rule (occurrences counted by the independent rules model)",
   text="Seeded histories (shuffle cycles, look-alike positions with other rights, several position commands in a row, histories beyond 1024 plies, one position occurring 254-259 times, a game starting from the position searched in the game before, GUI-anytime commands incl. advertised options between position and go); for every legal successor the engine's repetition verdict must equal 'occurred at least twice before'; the first go depth 1 of a game must report max(0 for repeating moves, -quiescence otherwise).",
   note="Only depth 1 is judged; successors on which the ep-square conventions disagree are skipped and counted."),
 "C11": dict(level="exploration", design="4/C11",
   technique="randomness seam (simulator-chosen key sets) + histories (game trees reaching positions by many move orders) + single-component neighbours + all pairs of one-feature variants of seeded bases (two-component differences); monitor: canonical position <-> hash bijection per key set",
   text="Weak claim: a monitor over ~1e7 hashed boards per quick run, one key set per sim; same canonical position must always hash equal (any path, any counters, before and after searches on the same engine, before and after another key table is created in the same process), different canonical positions must hash differently.",
   note="The hash is otherwise a pure function; only key draws and move-order histories are simulation content. Collision probability of honest keys ~1e-10 per run."),
 "C12": dict(level="exploration", design="4/C12",
   technique="deterministic simulation of a match with two chess clocks in virtual time; budget observed where the real go handler arms the real timer; metamorphic twin go with the opponent's clock replaced and tokens permuted; think time measured on the virtual clock in long-think sims",
   text="Seeded clock values (0 .. hours, increments up to and beyond the remaining time), both colours, all token orders; armed budget must exist, be <= the mover's remaining time, < when any time remains, and be unchanged by the opponent's values and the token order; in sims that let the engine think for 10^5-10^6 nodes the virtual time from go to bestmove must fit in the mover's remaining time (plus the overrun C07 allows).",
   note="Nothing is asserted about the allocation formula; the oracle's reading of the tokens is 'token followed by value, any order'. Token-order invariance is asserted for permutations of the four clock pairs; when other parameter pairs (movestogo, depth, nodes) sit between them the twin keeps the layout and only the opponent's values change (design 13.9). searchmoves lists next to the clocks, history independence of the budget."),
 "C13": dict(level="exploration", design="4/C13",
   technique="deterministic simulation twin runs: same script under several simulator-chosen key seeds; prefix+ucinewgame+suffix vs fresh process; plus two runs of the real binary (real key draws) compared with the simulation",
   text="Transcripts (info/bestmove minus time/nps) must be byte-identical across key sets and between 'after ucinewgame' and a fresh process, with adversarial prefixes containing clock-interrupted searches, suffixes that continue the game of the prefix, and a share of single large searches (several 10^5 nodes) for dependences that need many table probes to show; the same script on a machine a million times slower (depth-limited output must not notice the clock); one giant scenario per quick batch (ten depth-7 searches after ucinewgame, ~700 000 distinct positions cached) against a fresh process; position lines of 1-3.5 KB in the suffix.",
   note="HashMap hasher state is not behind a seam and varies like the keys; scripts are sampled."),
 "C15": dict(level="exploration", design="4/C15",
   technique="in-situ audit of the engine's own table after each of several simulated (interrupted, buggified) searches on one engine against depth-preferred replacement over all observed store calls; store/retrieve traffic recorded from such searches replayed on a fresh real table next to a reference map; synthetic seeded histories with depth ties and extreme scores (model-based sequence testing)",
   text="Observation-based, loss-tolerant oracle (design 13.1): every store is bracketed by lookups of its key; a lookup shows nothing or exactly what the key was last seen to hold, never another key's entry; a shallower store must leave a deeper entry, an equal or deeper one must replace it. Judged on replayed recorded traffic, synthetic histories (depth ties, the whole depth byte, extreme and coarse scores, tables replaced on the way), huge tables, and in situ on the engine's own table across several searches (also through UCI with setoption Hash lines).",
   note="Replay assumes the table is deterministic in its call sequence; what the engine does to the table between calls (per-search housekeeping) is covered by the in-situ audit; the synthetic part is not fault injection."),
 "C16": dict(level="fault_enumeration", design="4/C16",
   technique="deterministic simulation of the UCI process (stdin/stdout/exit seams) with end-of-input injected at every byte offset, transient read errors, reads interrupted by signals (EINTR) and undecodable lines; oracle = protocol transducer; real-binary fidelity runs",
   text="Every generated script is run once per byte offset at which the input can end (fault enumeration over the crash-point dimension, exhaustive per light script), each as one simulated engine process; output must match the protocol model and the process must terminate with status 0 within 8 reads after end of input. Sampled runs are repeated on the real binary over a real pipe.",
   note="Scripts are sampled; the stubs (reader, sink, exit) are trusted to behave like the OS facilities, checked by the real-binary runs; unknown lines exclude UCI command words. With line-by-line delivery every output line is attributed to the input line read last: nothing may be written in response to a non-command line; info string lines next to answers are tolerated; the answer to go ponder may be held back until stop/ponderhit. Runs of 60 000-250 000 lines without a command (stack probe in the input path; real binary)."),
}

NOT_APPLICABLE = {
 "C01": "pure function of a position (move generation); no schedule, clock, I/O, fault or history enters - exhaustive/perft-style testing is a different family. Generator defects still surface through C03/C04, whose oracle is an independent rules model.",
 "C02": "pure function of (position, move); 'histories' are compositions of that function with nothing to schedule or break. The same code path is exercised against the rules model by C04.",
 "C08": "pure function of (position, depth) on a fresh engine without a clock; the only legitimate fault kind (a forgetful cache) legitimately changes which winning move is returned, so injecting it would alarm falsely. Value-level defects are caught by C05.",
 "C10": "constant lookup tables, pure functions of (square, occupancy); exhaustive enumeration is the right tool and is a different family.",
 "C14": "pure function of the placement; scratch accumulators are reset per call and no schedule or fault can land between reset and use (single thread, no re-entrancy).",
 "C17": "pure function of a position (quiescence move filter).",
}

def main():
    commits = subprocess.run(["git","-C","/repo","log","--format=%h %s","--grep=^verif hooks"],capture_output=True,text=True).stdout.strip().splitlines()
    checks=[]
    for pid,c in sorted(CLAIMED.items()):
        checks.append({
          "property_id": pid,
          "quick_cmd": f"./check {pid} --tier quick",
          "thorough_cmd": f"./check {pid} --tier thorough",
          "evidence_file": f"/verif/evidence/{pid}.json",
          "replay_cmd_template": f"./check {pid} --replay {{path}}",
          "engine": "fv",
          "level_claimed": {"category": c["level"], "text": c["text"], "design_ref": c["design"]},
          "level_note": c["note"],
          "technique": c["technique"],
        })
    props=[json.loads(l)["id"] for l in open("/verif/properties.jsonl")]
    na=[{"property_id":p,"reason":NOT_APPLICABLE[p]} for p in props if p in NOT_APPLICABLE]
    for p in props:
        if p not in CLAIMED and p not in NOT_APPLICABLE:
            na.append({"property_id":p,"reason":"not claimed yet: the simulated check for this property (DESIGN.md section 4) is not built in this commit"})
    m={
      "version":1,
      "setup_cmd":"./setup.sh",
      "hooks":{
        "guard":"flounder_verif",
        "enable":"RUSTFLAGS='--cfg flounder_verif' (set by /verif/harness/.cargo/config.toml; the harness compiles /repo/src/*.rs in place as modules of its own crate)",
        "baseline_off_cmd":"cd /repo && cargo test --workspace --no-fail-fast --offline",
        "source_commits":[c.split()[0] for c in commits],
        "add_only":True,
      },
      "engines":[{"name":"fv","path":"/verif/harness","serves_properties":sorted(CLAIMED),"kind_free_text":"hand-written single-process deterministic simulator (virtual clock, scripted stdin, captured stdout, exit seam, seeded key draws, cooperative cache faults) around the real engine sources; rules-of-chess and search reference models as oracles"}],
      "checks":checks,
      "not_applicable":na,
      "notes":"Exit 0 = held, 1 = VIOLATION line, 2 = harness error. VERIF_SEED (default 1) decides every run; VERIF_WORKERS changes only speed. Known findings: /verif/known_findings.json.",
    }
    json.dump(m,open("/verif/MANIFEST.json","w"),indent=1); open("/verif/MANIFEST.json","a").write("\n")
main()
