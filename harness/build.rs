// Generates the list of engine modules from the `mod` lines of <repo>/src/main.rs, so
// that the harness always compiles the engine sources of the current working tree in
// place (absolute #[path] modules). FLOUNDER_REPO overrides the location (used to run
// the checks against a scratch worktree).
use std::{env, fs, path::PathBuf};

fn main() {
    let repo = env::var("FLOUNDER_REPO").unwrap_or_else(|_| "/repo".to_string());
    println!("cargo:rerun-if-env-changed=FLOUNDER_REPO");
    let main_rs = format!("{}/src/main.rs", repo);
    println!("cargo:rerun-if-changed={}", main_rs);
    println!("cargo:rerun-if-changed={}/src", repo);
    let src = fs::read_to_string(&main_rs).expect("cannot read <repo>/src/main.rs");
    let mut out = String::new();
    for line in src.lines() {
        let l = line.trim();
        if let Some(rest) = l.strip_prefix("mod ").or_else(|| l.strip_prefix("pub mod ")) {
            if let Some(name) = rest.strip_suffix(';') {
                let name = name.trim();
                out.push_str(&format!(
                    "#[path = \"{}/src/{}.rs\"] pub mod {};\n",
                    repo, name, name
                ));
            }
        }
    }
    let dest = PathBuf::from(env::var("OUT_DIR").unwrap()).join("engine_mods.rs");
    fs::write(dest, out).unwrap();
    println!("cargo:rustc-env=FLOUNDER_REPO_PATH={}", repo);
}
