//! Obligations that come before any property result is believed: the rules model is
//! validated against published perft values (not against the engine it judges), and
//! the generator's constructed positions are valid.

use crate::gen;
use crate::rules::*;

pub fn run(which: &str, _seed: u64, _workers: usize) -> i32 {
    let mut code = 0;
    if which == "all" || which == "rules" {
        code |= rules_selftest();
    }
    code
}

pub fn rules_selftest() -> i32 {
    let mut bad = 0;
    let results: Vec<(usize, u64)> = std::thread::scope(|s| {
        let hs: Vec<_> = PERFT_SUITE
            .iter()
            .enumerate()
            .map(|(i, (fen, d, _))| {
                s.spawn(move || (i, Pos::from_fen(fen).unwrap().perft(*d)))
            })
            .collect();
        hs.into_iter().map(|h| h.join().unwrap()).collect()
    });
    for (i, got) in results {
        let (fen, d, want) = PERFT_SUITE[i];
        if got != want {
            println!("rules selftest: perft({}) of {} = {} but published value is {}", d, fen, got, want);
            bad += 1;
        }
    }
    for fen in gen::EDGE_FENS.iter().chain(gen::EXPLOSIVE_FENS.iter()) {
        let p = Pos::from_fen(fen).unwrap();
        if !p.is_valid() {
            println!("rules selftest: constructed position is not valid: {}", fen);
            bad += 1;
        }
        if p.to_fen() != *fen {
            println!("rules selftest: FEN round trip differs: {} -> {}", fen, p.to_fen());
            bad += 1;
        }
    }
    if bad == 0 {
        println!("rules selftest: {} perft positions match published values; {} constructed positions valid", PERFT_SUITE.len(), gen::EDGE_FENS.len() + gen::EXPLOSIVE_FENS.len());
        0
    } else {
        2
    }
}
