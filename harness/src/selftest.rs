//! Obligations that come before any property result is believed: the rules model is
//! validated against published perft values (not against the engine it judges), and
//! the generator's constructed positions are valid.

use crate::gen;
use crate::rules::*;

pub fn run(which: &str, _seed: u64, _workers: usize) -> i32 {
    let mut code = 0;
    if which == "all" || which == "rules" {
        code |= rules_selftest();
    }
    if which == "determinism" {
        code |= determinism_selftest();
    }
    code
}

pub fn rules_selftest() -> i32 {
    let mut bad = 0;
    let results: Vec<(usize, u64)> = std::thread::scope(|s| {
        let hs: Vec<_> = PERFT_SUITE
            .iter()
            .enumerate()
            .map(|(i, (fen, d, _))| {
                s.spawn(move || (i, Pos::from_fen(fen).unwrap().perft(*d)))
            })
            .collect();
        hs.into_iter().map(|h| h.join().unwrap()).collect()
    });
    for (i, got) in results {
        let (fen, d, want) = PERFT_SUITE[i];
        if got != want {
            println!("rules selftest: perft({}) of {} = {} but published value is {}", d, fen, got, want);
            bad += 1;
        }
    }
    for fen in gen::EDGE_FENS.iter().chain(gen::EXPLOSIVE_FENS.iter()) {
        let p = Pos::from_fen(fen).unwrap();
        if !p.is_valid() {
            println!("rules selftest: constructed position is not valid: {}", fen);
            bad += 1;
        }
        if p.to_fen() != *fen {
            println!("rules selftest: FEN round trip differs: {} -> {}", fen, p.to_fen());
            bad += 1;
        }
    }
    if bad == 0 {
        println!("rules selftest: {} perft positions match published values; {} constructed positions valid", PERFT_SUITE.len(), gen::EDGE_FENS.len() + gen::EXPLOSIVE_FENS.len());
        0
    } else {
        2
    }
}


/// Every check's batch, in separate processes, at worker counts 1, 4 and 16 and twice at
/// 16: the per-sim event-log hashes must be identical (this is also what would expose a
/// dependence on HashMap's per-process hasher state).
pub fn determinism_selftest() -> i32 {
    let exe = std::env::current_exe().unwrap();
    let scale = std::env::var("VERIF_SCALE").unwrap_or_else(|_| "0.25".into());
    let ids = ["C03", "C04", "C05", "C06", "C07", "C09", "C11", "C12", "C13", "C15", "C16"];
    let mut bad = 0;
    let mut total_sims = 0usize;
    let seed0: u64 = std::env::var("VERIF_SEED").ok().and_then(|s| s.parse().ok()).unwrap_or(1);
    let nseeds: u64 = std::env::var("VERIF_SELFTEST_SEEDS").ok().and_then(|s| s.parse().ok()).unwrap_or(2);
    for (id, seed) in ids.iter().flat_map(|id| (0..nseeds).map(move |k| (*id, seed0 + k))) {
        let mut outs: Vec<(String, Vec<String>)> = vec![];
        for (label, workers) in [("w1", "1"), ("w4", "4"), ("w16a", "16"), ("w16b", "16")] {
            let o = std::process::Command::new(&exe)
                .args(["check", id, "--tier", "quick"])
                .env("VERIF_HASH_ONLY", "1")
                .env("VERIF_WORKERS", workers)
                .env("VERIF_SEED", seed.to_string())
                .env("VERIF_SCALE", &scale)
                .env_remove("VERIF_REAL_BIN")
                .output()
                .expect("spawn");
            let text = String::from_utf8_lossy(&o.stdout).to_string();
            let lines: Vec<String> = text.lines().filter(|l| l.starts_with("PERSIM") || l.starts_with("BATCHHASH")).map(|s| s.to_string()).collect();
            outs.push((label.to_string(), lines));
        }
        let base = &outs[0].1;
        total_sims += base.len().saturating_sub(1);
        for (label, lines) in &outs[1..] {
            if lines != base || base.is_empty() {
                bad += 1;
                let diff = base.iter().zip(lines.iter()).find(|(a, b)| a != b);
                println!("determinism selftest: {} seed {} differs between w1 and {}: {:?}", id, seed, label, diff);
            }
        }
        println!("determinism selftest: {} seed {} {} ({} sims, 4 processes, workers 1/4/16/16)", id, seed, if bad == 0 { "identical" } else { "CHECK" }, base.len().saturating_sub(1));
    }
    if bad == 0 {
        println!("determinism selftest: all per-sim event-log hashes identical ({} sims x 4 runs)", total_sims);
        0
    } else {
        2
    }
}
