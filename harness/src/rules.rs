//! R — an independent model of the rules of chess (FIDE Laws, articles 3 and 5.2),
//! written for clarity, not speed: 8x8 mailbox, pseudo-legal generation by walking
//! directions, legality by make-and-test. It shares no code with the engine.
//!
//! Conventions (the ones the properties use): squares a1=0 .. h8=63; the en-passant
//! target is recorded after *every* double pawn push, whether or not a capture is
//! possible.

use std::fmt::Write as _;

pub const EMPTY: u8 = 0;
pub const PAWN: u8 = 1;
pub const KNIGHT: u8 = 2;
pub const BISHOP: u8 = 3;
pub const ROOK: u8 = 4;
pub const QUEEN: u8 = 5;
pub const KING: u8 = 6;
pub const BLACK: u8 = 8;

#[inline]
pub fn kind(p: u8) -> u8 {
    p & 7
}
#[inline]
pub fn is_white(p: u8) -> bool {
    p != EMPTY && p & BLACK == 0
}
#[inline]
pub fn is_black(p: u8) -> bool {
    p & BLACK != 0
}
#[inline]
pub fn file_of(s: u8) -> i8 {
    (s % 8) as i8
}
#[inline]
pub fn rank_of(s: u8) -> i8 {
    (s / 8) as i8
}
#[inline]
pub fn sq(file: i8, rank: i8) -> u8 {
    (rank * 8 + file) as u8
}
pub fn sq_name(s: u8) -> String {
    format!("{}{}", (b'a' + s % 8) as char, (b'1' + s / 8) as char)
}
pub fn parse_sq(s: &str) -> Option<u8> {
    let b = s.as_bytes();
    if b.len() != 2 || !(b'a'..=b'h').contains(&b[0]) || !(b'1'..=b'8').contains(&b[1]) {
        return None;
    }
    Some((b[1] - b'1') * 8 + (b[0] - b'a'))
}

#[derive(Clone, Copy, PartialEq, Eq, Hash, Debug)]
pub struct RMove {
    pub from: u8,
    pub to: u8,
    /// Piece kind promoted to (KNIGHT..QUEEN) or 0.
    pub promo: u8,
    pub flags: u8,
}
pub const F_CAPTURE: u8 = 1;
pub const F_EP: u8 = 2;
pub const F_CASTLE: u8 = 4;
pub const F_DOUBLE: u8 = 8;

impl RMove {
    pub fn uci(&self) -> String {
        let mut s = format!("{}{}", sq_name(self.from), sq_name(self.to));
        match self.promo {
            KNIGHT => s.push('n'),
            BISHOP => s.push('b'),
            ROOK => s.push('r'),
            QUEEN => s.push('q'),
            _ => {}
        }
        s
    }
    pub fn is_capture(&self) -> bool {
        self.flags & (F_CAPTURE | F_EP) != 0
    }
}

/// Canonical identity of a position: placement, side to move, four rights, ep target.
#[derive(Clone, PartialEq, Eq, Hash, Debug, PartialOrd, Ord)]
pub struct Key {
    pub sq: [u8; 64],
    pub white_to_move: bool,
    pub castle: [bool; 4],
    pub ep: Option<u8>,
}

#[derive(Clone, PartialEq, Eq, Debug)]
pub struct Pos {
    pub sq: [u8; 64],
    pub white_to_move: bool,
    /// K, Q, k, q
    pub castle: [bool; 4],
    pub ep: Option<u8>,
    pub halfmove: u32,
    pub fullmove: u32,
}

const KNIGHT_D: [(i8, i8); 8] = [
    (1, 2),
    (2, 1),
    (2, -1),
    (1, -2),
    (-1, -2),
    (-2, -1),
    (-2, 1),
    (-1, 2),
];
const KING_D: [(i8, i8); 8] = [
    (1, 0),
    (1, 1),
    (0, 1),
    (-1, 1),
    (-1, 0),
    (-1, -1),
    (0, -1),
    (1, -1),
];
const ROOK_D: [(i8, i8); 4] = [(1, 0), (0, 1), (-1, 0), (0, -1)];
const BISHOP_D: [(i8, i8); 4] = [(1, 1), (-1, 1), (-1, -1), (1, -1)];

fn on_board(f: i8, r: i8) -> bool {
    (0..8).contains(&f) && (0..8).contains(&r)
}

impl Pos {
    pub fn startpos() -> Pos {
        Pos::from_fen("rnbqkbnr/pppppppp/8/8/8/8/PPPPPPPP/RNBQKBNR w KQkq - 0 1").unwrap()
    }

    pub fn from_fen(fen: &str) -> Result<Pos, String> {
        let parts: Vec<&str> = fen.split_whitespace().collect();
        if parts.len() < 4 {
            return Err("too few fields".into());
        }
        let mut sqs = [EMPTY; 64];
        let ranks: Vec<&str> = parts[0].split('/').collect();
        if ranks.len() != 8 {
            return Err("ranks".into());
        }
        for (i, r) in ranks.iter().enumerate() {
            let rank = 7 - i as i8;
            let mut file = 0i8;
            for c in r.chars() {
                if let Some(d) = c.to_digit(10) {
                    file += d as i8;
                } else {
                    let k = match c.to_ascii_lowercase() {
                        'p' => PAWN,
                        'n' => KNIGHT,
                        'b' => BISHOP,
                        'r' => ROOK,
                        'q' => QUEEN,
                        'k' => KING,
                        _ => return Err("piece".into()),
                    };
                    if file > 7 {
                        return Err("file overflow".into());
                    }
                    sqs[sq(file, rank) as usize] = if c.is_ascii_lowercase() { k | BLACK } else { k };
                    file += 1;
                }
            }
            if file != 8 {
                return Err("rank width".into());
            }
        }
        let white_to_move = match parts[1] {
            "w" => true,
            "b" => false,
            _ => return Err("side".into()),
        };
        let mut castle = [false; 4];
        for c in parts[2].chars() {
            match c {
                'K' => castle[0] = true,
                'Q' => castle[1] = true,
                'k' => castle[2] = true,
                'q' => castle[3] = true,
                '-' => {}
                _ => return Err("castle".into()),
            }
        }
        let ep = if parts[3] == "-" {
            None
        } else {
            Some(parse_sq(parts[3]).ok_or("ep")?)
        };
        let halfmove = parts.get(4).map(|s| s.parse().unwrap_or(0)).unwrap_or(0);
        let fullmove = parts.get(5).map(|s| s.parse().unwrap_or(1)).unwrap_or(1);
        Ok(Pos {
            sq: sqs,
            white_to_move,
            castle,
            ep,
            halfmove,
            fullmove,
        })
    }

    pub fn placement_fen(&self) -> String {
        let mut s = String::new();
        for rank in (0..8).rev() {
            let mut empty = 0;
            for file in 0..8 {
                let p = self.sq[sq(file, rank) as usize];
                if p == EMPTY {
                    empty += 1;
                } else {
                    if empty > 0 {
                        write!(s, "{}", empty).unwrap();
                        empty = 0;
                    }
                    let c = match kind(p) {
                        PAWN => 'p',
                        KNIGHT => 'n',
                        BISHOP => 'b',
                        ROOK => 'r',
                        QUEEN => 'q',
                        _ => 'k',
                    };
                    s.push(if is_white(p) { c.to_ascii_uppercase() } else { c });
                }
            }
            if empty > 0 {
                write!(s, "{}", empty).unwrap();
            }
            if rank > 0 {
                s.push('/');
            }
        }
        s
    }

    pub fn to_fen(&self) -> String {
        let mut s = self.placement_fen();
        s.push(' ');
        s.push(if self.white_to_move { 'w' } else { 'b' });
        s.push(' ');
        let mut any = false;
        for (i, c) in ['K', 'Q', 'k', 'q'].iter().enumerate() {
            if self.castle[i] {
                s.push(*c);
                any = true;
            }
        }
        if !any {
            s.push('-');
        }
        s.push(' ');
        match self.ep {
            Some(e) => s.push_str(&sq_name(e)),
            None => s.push('-'),
        }
        write!(s, " {} {}", self.halfmove, self.fullmove).unwrap();
        s
    }

    pub fn key(&self) -> Key {
        Key {
            sq: self.sq,
            white_to_move: self.white_to_move,
            castle: self.castle,
            ep: self.ep,
        }
    }

    /// Identity under the FIDE repetition rule (9.2): the ep square only counts when an
    /// en-passant capture is actually legal.
    pub fn fide_key(&self) -> Key {
        let mut k = self.key();
        if k.ep.is_some() && !self.legal_moves().iter().any(|m| m.flags & F_EP != 0) {
            k.ep = None;
        }
        k
    }

    fn own(&self, p: u8) -> bool {
        if self.white_to_move {
            is_white(p)
        } else {
            is_black(p)
        }
    }
    fn enemy(&self, p: u8) -> bool {
        if self.white_to_move {
            is_black(p)
        } else {
            is_white(p)
        }
    }

    pub fn king_square(&self, white: bool) -> Option<u8> {
        let k = if white { KING } else { KING | BLACK };
        (0..64u8).find(|&s| self.sq[s as usize] == k)
    }

    /// Is square `s` attacked by a piece of the given colour?
    pub fn attacked(&self, s: u8, by_white: bool) -> bool {
        let f = file_of(s);
        let r = rank_of(s);
        let c = if by_white { 0 } else { BLACK };
        // pawns: a white pawn on (f±1, r-1) attacks (f, r)
        let pr = if by_white { r - 1 } else { r + 1 };
        for df in [-1i8, 1] {
            if on_board(f + df, pr) && self.sq[sq(f + df, pr) as usize] == (PAWN | c) {
                return true;
            }
        }
        for (df, dr) in KNIGHT_D {
            if on_board(f + df, r + dr) && self.sq[sq(f + df, r + dr) as usize] == (KNIGHT | c) {
                return true;
            }
        }
        for (df, dr) in KING_D {
            if on_board(f + df, r + dr) && self.sq[sq(f + df, r + dr) as usize] == (KING | c) {
                return true;
            }
        }
        for (dirs, a, b) in [(&ROOK_D, ROOK, QUEEN), (&BISHOP_D, BISHOP, QUEEN)] {
            for (df, dr) in dirs.iter() {
                let (mut x, mut y) = (f + df, r + dr);
                while on_board(x, y) {
                    let p = self.sq[sq(x, y) as usize];
                    if p != EMPTY {
                        if p == (a | c) || p == (b | c) {
                            return true;
                        }
                        break;
                    }
                    x += df;
                    y += dr;
                }
            }
        }
        false
    }

    pub fn in_check(&self) -> bool {
        match self.king_square(self.white_to_move) {
            Some(k) => self.attacked(k, !self.white_to_move),
            None => false,
        }
    }

    fn pseudo_moves(&self) -> Vec<RMove> {
        let mut v = Vec::with_capacity(64);
        let white = self.white_to_move;
        for s in 0..64u8 {
            let p = self.sq[s as usize];
            if !self.own(p) {
                continue;
            }
            let f = file_of(s);
            let r = rank_of(s);
            match kind(p) {
                PAWN => {
                    let dir: i8 = if white { 1 } else { -1 };
                    let start_rank = if white { 1 } else { 6 };
                    let promo_rank = if white { 7 } else { 0 };
                    let push = |v: &mut Vec<RMove>, to: u8, flags: u8| {
                        if rank_of(to) == promo_rank {
                            for pr in [QUEEN, ROOK, BISHOP, KNIGHT] {
                                v.push(RMove {
                                    from: s,
                                    to,
                                    promo: pr,
                                    flags,
                                });
                            }
                        } else {
                            v.push(RMove {
                                from: s,
                                to,
                                promo: 0,
                                flags,
                            });
                        }
                    };
                    if on_board(f, r + dir) && self.sq[sq(f, r + dir) as usize] == EMPTY {
                        push(&mut v, sq(f, r + dir), 0);
                        if r == start_rank && self.sq[sq(f, r + 2 * dir) as usize] == EMPTY {
                            v.push(RMove {
                                from: s,
                                to: sq(f, r + 2 * dir),
                                promo: 0,
                                flags: F_DOUBLE,
                            });
                        }
                    }
                    for df in [-1i8, 1] {
                        if !on_board(f + df, r + dir) {
                            continue;
                        }
                        let t = sq(f + df, r + dir);
                        if self.enemy(self.sq[t as usize]) {
                            push(&mut v, t, F_CAPTURE);
                        } else if Some(t) == self.ep && self.sq[t as usize] == EMPTY {
                            // The pawn to be captured stands beside the capturer.
                            let victim = sq(f + df, r);
                            let want = if white { PAWN | BLACK } else { PAWN };
                            let ep_rank = if white { 5 } else { 2 };
                            if self.sq[victim as usize] == want && rank_of(t) == ep_rank {
                                v.push(RMove {
                                    from: s,
                                    to: t,
                                    promo: 0,
                                    flags: F_EP,
                                });
                            }
                        }
                    }
                }
                KNIGHT | KING => {
                    let d = if kind(p) == KNIGHT { &KNIGHT_D } else { &KING_D };
                    for (df, dr) in d.iter() {
                        if !on_board(f + df, r + dr) {
                            continue;
                        }
                        let t = sq(f + df, r + dr);
                        let q = self.sq[t as usize];
                        if q == EMPTY {
                            v.push(RMove {
                                from: s,
                                to: t,
                                promo: 0,
                                flags: 0,
                            });
                        } else if self.enemy(q) {
                            v.push(RMove {
                                from: s,
                                to: t,
                                promo: 0,
                                flags: F_CAPTURE,
                            });
                        }
                    }
                }
                _ => {
                    let mut dirs: Vec<(i8, i8)> = Vec::new();
                    if kind(p) != BISHOP {
                        dirs.extend_from_slice(&ROOK_D);
                    }
                    if kind(p) != ROOK {
                        dirs.extend_from_slice(&BISHOP_D);
                    }
                    for (df, dr) in dirs {
                        let (mut x, mut y) = (f + df, r + dr);
                        while on_board(x, y) {
                            let t = sq(x, y);
                            let q = self.sq[t as usize];
                            if q == EMPTY {
                                v.push(RMove {
                                    from: s,
                                    to: t,
                                    promo: 0,
                                    flags: 0,
                                });
                            } else {
                                if self.enemy(q) {
                                    v.push(RMove {
                                        from: s,
                                        to: t,
                                        promo: 0,
                                        flags: F_CAPTURE,
                                    });
                                }
                                break;
                            }
                            x += df;
                            y += dr;
                        }
                    }
                }
            }
        }
        // Castling (article 3.8.2): king and rook on their original squares with the
        // right intact, squares between them empty, king not in check, and the squares
        // the king crosses and lands on not attacked.
        let (rank, k, rk, ci) = if white {
            (0i8, KING, ROOK, 0usize)
        } else {
            (7i8, KING | BLACK, ROOK | BLACK, 2usize)
        };
        let e = sq(4, rank);
        if self.sq[e as usize] == k && !self.attacked(e, !white) {
            if self.castle[ci]
                && self.sq[sq(7, rank) as usize] == rk
                && self.sq[sq(5, rank) as usize] == EMPTY
                && self.sq[sq(6, rank) as usize] == EMPTY
                && !self.attacked(sq(5, rank), !white)
                && !self.attacked(sq(6, rank), !white)
            {
                v.push(RMove {
                    from: e,
                    to: sq(6, rank),
                    promo: 0,
                    flags: F_CASTLE,
                });
            }
            if self.castle[ci + 1]
                && self.sq[sq(0, rank) as usize] == rk
                && self.sq[sq(1, rank) as usize] == EMPTY
                && self.sq[sq(2, rank) as usize] == EMPTY
                && self.sq[sq(3, rank) as usize] == EMPTY
                && !self.attacked(sq(3, rank), !white)
                && !self.attacked(sq(2, rank), !white)
            {
                v.push(RMove {
                    from: e,
                    to: sq(2, rank),
                    promo: 0,
                    flags: F_CASTLE,
                });
            }
        }
        v
    }

    /// Successor position (no legality test).
    pub fn make(&self, m: &RMove) -> Pos {
        let mut n = self.clone();
        let white = self.white_to_move;
        let p = self.sq[m.from as usize];
        let captured = self.sq[m.to as usize];
        n.sq[m.from as usize] = EMPTY;
        n.sq[m.to as usize] = if m.promo != 0 {
            m.promo | (p & BLACK)
        } else {
            p
        };
        if m.flags & F_EP != 0 {
            let victim = sq(file_of(m.to), rank_of(m.from));
            n.sq[victim as usize] = EMPTY;
        }
        if m.flags & F_CASTLE != 0 {
            let rank = rank_of(m.from);
            if file_of(m.to) == 6 {
                n.sq[sq(5, rank) as usize] = n.sq[sq(7, rank) as usize];
                n.sq[sq(7, rank) as usize] = EMPTY;
            } else {
                n.sq[sq(3, rank) as usize] = n.sq[sq(0, rank) as usize];
                n.sq[sq(0, rank) as usize] = EMPTY;
            }
        }
        // Rights: lost when the king moves, when a rook leaves its corner, or when
        // anything lands on a corner (a rook standing there is captured).
        if kind(p) == KING {
            let ci = if white { 0 } else { 2 };
            n.castle[ci] = false;
            n.castle[ci + 1] = false;
        }
        for s in [m.from, m.to] {
            match s {
                7 => n.castle[0] = false,
                0 => n.castle[1] = false,
                63 => n.castle[2] = false,
                56 => n.castle[3] = false,
                _ => {}
            }
        }
        n.ep = if m.flags & F_DOUBLE != 0 {
            Some(sq(file_of(m.from), (rank_of(m.from) + rank_of(m.to)) / 2))
        } else {
            None
        };
        n.halfmove = if kind(p) == PAWN || captured != EMPTY {
            0
        } else {
            self.halfmove + 1
        };
        if !white {
            n.fullmove = self.fullmove + 1;
        }
        n.white_to_move = !white;
        n
    }

    pub fn legal_moves(&self) -> Vec<RMove> {
        let white = self.white_to_move;
        self.pseudo_moves()
            .into_iter()
            .filter(|m| {
                let n = self.make(m);
                match n.king_square(white) {
                    Some(k) => !n.attacked(k, !white),
                    None => false,
                }
            })
            .collect()
    }

    pub fn find_uci(&self, s: &str) -> Option<RMove> {
        self.legal_moves().into_iter().find(|m| m.uci() == s)
    }

    pub fn perft(&self, depth: u32) -> u64 {
        if depth == 0 {
            return 1;
        }
        let ms = self.legal_moves();
        if depth == 1 {
            return ms.len() as u64;
        }
        ms.iter().map(|m| self.make(m).perft(depth - 1)).sum()
    }

    /// Structural validity in the sense of property C01's quantifier: one king each,
    /// side not to move not in check, no pawns on ranks 1/8, castling flags and ep
    /// square consistent with the placement.
    pub fn is_valid(&self) -> bool {
        let wk = self.sq.iter().filter(|&&p| p == KING).count();
        let bk = self.sq.iter().filter(|&&p| p == (KING | BLACK)).count();
        if wk != 1 || bk != 1 {
            return false;
        }
        for f in 0..8 {
            if kind(self.sq[sq(f, 0) as usize]) == PAWN || kind(self.sq[sq(f, 7) as usize]) == PAWN {
                return false;
            }
        }
        let other_king = self.king_square(!self.white_to_move).unwrap();
        if self.attacked(other_king, self.white_to_move) {
            return false;
        }
        let c = self.castle;
        if (c[0] || c[1]) && self.sq[4] != KING {
            return false;
        }
        if c[0] && self.sq[7] != ROOK {
            return false;
        }
        if c[1] && self.sq[0] != ROOK {
            return false;
        }
        if (c[2] || c[3]) && self.sq[60] != (KING | BLACK) {
            return false;
        }
        if c[2] && self.sq[63] != (ROOK | BLACK) {
            return false;
        }
        if c[3] && self.sq[56] != (ROOK | BLACK) {
            return false;
        }
        if let Some(e) = self.ep {
            // The pawn that just made the double step stands in front of the target,
            // the target and the square behind it are empty.
            let (er, pawn_r, behind_r, pawn) = if self.white_to_move {
                (5, 4, 6, PAWN | BLACK)
            } else {
                (2, 3, 1, PAWN)
            };
            let f = file_of(e);
            if rank_of(e) != er
                || self.sq[sq(f, pawn_r) as usize] != pawn
                || self.sq[e as usize] != EMPTY
                || self.sq[sq(f, behind_r) as usize] != EMPTY
            {
                return false;
            }
        }
        true
    }

    pub fn piece_count(&self) -> usize {
        self.sq.iter().filter(|&&p| p != EMPTY).count()
    }
}

/// Published perft values (chessprogramming wiki "Perft Results" positions 1-6 and
/// the castling / promotion / en-passant positions of the common perft suites).
pub const PERFT_SUITE: &[(&str, u32, u64)] = &[
    ("rnbqkbnr/pppppppp/8/8/8/8/PPPPPPPP/RNBQKBNR w KQkq - 0 1", 4, 197_281),
    (
        "r3k2r/p1ppqpb1/bn2pnp1/3PN3/1p2P3/2N2Q1p/PPPBBPPP/R3K2R w KQkq - 0 1",
        3,
        97_862,
    ),
    ("8/2p5/3p4/KP5r/1R3p1k/8/4P1P1/8 w - - 0 1", 5, 674_624),
    (
        "r3k2r/Pppp1ppp/1b3nbN/nP6/BBP1P3/q4N2/Pp1P2PP/R2Q1RK1 w kq - 0 1",
        4,
        422_333,
    ),
    (
        "rnbq1k1r/pp1Pbppp/2p5/8/2B5/8/PPP1NnPP/RNBQK2R w KQ - 1 8",
        3,
        62_379,
    ),
    (
        "r4rk1/1pp1qppp/p1np1n2/2b1p1B1/2B1P1b1/P1NP1N2/1PP1QPPP/R4RK1 w - - 0 10",
        3,
        89_890,
    ),
    ("r3k2r/8/8/8/8/8/8/R3K2R w KQkq - 0 1", 4, 314_346),
    ("4k3/8/8/8/8/8/8/4K2R w K - 0 1", 5, 133_987),
    ("n1n5/PPPk4/8/8/8/8/4Kppp/5N1N b - - 0 1", 4, 182_838),
    ("8/8/1k6/2b5/2pP4/8/5K2/8 b - d3 0 1", 6, 1_440_467),
    ("r3k2r/1b4bq/8/8/8/8/7B/R3K2R w KQkq - 0 1", 4, 1_274_206),
    ("r3k2r/8/3Q4/8/8/5q2/8/R3K2R b KQkq - 0 1", 4, 1_720_476),
    ("2K2r2/4P3/8/8/8/8/8/3k4 w - - 0 1", 6, 3_821_001),
    ("8/8/1P2K3/8/2n5/1q6/8/5k2 b - - 0 1", 5, 1_004_658),
    ("8/8/2k5/5q2/5n2/8/5K2/8 b - - 0 1", 4, 23_527),
    ("3k4/3p4/8/K1P4r/8/8/8/8 b - - 0 1", 6, 1_134_888),
];
