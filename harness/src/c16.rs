//! C16 — protocol handshake, tolerance of unknown input, clean termination.
//! World U, loop-driven; fault enumeration: end of input at every byte offset of each
//! generated script, plus transient read errors and undecodable lines.

use crate::common::*;
use crate::gen;
use crate::realbin;
use crate::rng::{derive, Rng};
use crate::rules::Pos;
use crate::simworld::*;
use serde_json::{json, Value};

const BAD: char = '\u{FFFD}';

#[derive(Clone, Debug)]
pub struct Scenario {
    /// Raw lines including their terminators; U+FFFD stands for the byte 0xFF.
    pub lines: Vec<String>,
    /// Deliver only the first `cut` bytes, then end of input (None = everything).
    pub cut: Option<usize>,
    /// 0 = one read per line, 1 = everything in one read, k>=2 = reads of k bytes.
    pub chunking: usize,
    /// Inject one transient I/O error (ErrorKind::Other) before this line index.
    pub read_error_before_line: Option<usize>,
    /// k>0: the k-th, 2k-th, ... read() is interrupted by a signal (EINTR) before it
    /// delivers anything; retrying is the caller's duty and loses nothing
    pub eintr_every: usize,
    pub key_seed: u64,
}

impl Scenario {
    pub fn to_json(&self) -> Value {
        json!({
            "lines": self.lines,
            "cut": self.cut,
            "chunking": self.chunking,
            "read_error_before_line": self.read_error_before_line,
            "eintr_every": self.eintr_every,
            "key_seed": self.key_seed,
        })
    }
    pub fn from_json(v: &Value) -> Option<Scenario> {
        Some(Scenario {
            lines: v["lines"]
                .as_array()?
                .iter()
                .map(|x| x.as_str().unwrap_or("").to_string())
                .collect(),
            cut: v["cut"].as_u64().map(|x| x as usize),
            chunking: v["chunking"].as_u64().unwrap_or(0) as usize,
            read_error_before_line: v["read_error_before_line"].as_u64().map(|x| x as usize),
            eintr_every: v["eintr_every"].as_u64().unwrap_or(0) as usize,
            key_seed: v["key_seed"].as_u64().unwrap_or(0),
        })
    }
    fn line_bytes(l: &str) -> Vec<u8> {
        let mut out = vec![];
        for c in l.chars() {
            if c == BAD {
                out.push(0xFF);
            } else {
                let mut b = [0u8; 4];
                out.extend_from_slice(c.encode_utf8(&mut b).as_bytes());
            }
        }
        out
    }
    pub fn all_bytes(&self) -> Vec<u8> {
        self.lines.iter().flat_map(|l| Self::line_bytes(l)).collect()
    }
    pub fn delivered_bytes(&self) -> Vec<u8> {
        let mut b = self.all_bytes();
        if let Some(c) = self.cut {
            b.truncate(c);
        }
        b
    }
}

const UNKNOWN_LINES: &[&str] = &[
    "stop",
    "setoption name Hash value 16",
    "debug on",
    "ponderhit",
    "register later",
    "xyzzy",
    "setoption name Threads value 4",
    "hello world 123",
    "????",
    "d",
    "perft 3",
    "eval",
    "flip",
    // lines that start with a character some tool or shell treats specially (a recorded
    // session with annotations, a pasted prompt): still just lines the engine does not know
    "# recorded session, annotated",
    "#",
    "#x",
    "; note",
    "// note",
    "'quoted words'",
    "> hello",
    "!bang",
    "@file.txt",
    "\\",
    "%1",
    "-v",
    "--help",
    "*",
    "[section]",
    "{\"json\": 1}",
    "<xml/>",
    "$HOME",
    "0000",
    "e2e4",
];

fn gen_line(rng: &mut Rng, heavy: bool) -> String {
    let body = match rng.below(if heavy { 12 } else { 9 }) {
        0 => "uci".to_string(),
        1 | 2 => "isready".to_string(),
        3 => "ucinewgame".to_string(),
        4 => String::new(),
        5 => " \t  ".to_string(),
        6 | 7 => rng.pick(UNKNOWN_LINES).to_string(),
        8 => match rng.below(4) {
            0 => {
                // printable garbage that contains no command word
                let n = rng.range(1, 30);
                (0..n)
                    .map(|_| *rng.pick(&['#', '%', '7', 'Z', 'w', '-', '=', ' ', '~', '!']))
                    .collect()
            }
            1 => "z".repeat(rng.range(200, 9000) as usize),
            2 => format!("ab{}cd", BAD),
            _ => "é ü ♞".to_string(),
        },
        9 => {
            // position from a short legal game
            let plies = rng.usize_below(7);
            let (ms, _) = gen::playout(rng, &Pos::startpos(), plies, 1);
            if ms.is_empty() {
                "position startpos".to_string()
            } else {
                format!("position startpos moves {}", gen::moves_uci(&ms).join(" "))
            }
        }
        10 => {
            let p = gen::random_position(rng);
            format!("position fen {}", clamp_counters(&p).to_fen())
        }
        _ => {
            if rng.chance(1, 5) {
                // a position without legal moves: even `go infinite` ends by itself there
                // (two lines in one: the position and the go)
                let fen = *rng.pick(&gen::EDGE_FENS[..6]);
                let go = *rng.pick(&["go infinite", "go depth 64", "go"]);
                return format!("position fen {}\n{}\n", fen, go);
            }
            if rng.chance(1, 3) {
                // pondering: the answer may come at once (an engine without pondering) or be
                // held back until stop / ponderhit; either way the session goes on
                let mut b = format!("go ponder depth {}\n", rng.range(1, 2));
                for _ in 0..rng.below(3) {
                    let m: &str = *rng.pick(&["isready\n", "\n", "xyzzy\n", "isready\n"]);
                    b.push_str(m);
                }
                let e: &str = *rng.pick(&["stop\n", "ponderhit\n", "stop\n"]);
                b.push_str(e);
                return b;
            }
            if rng.chance(1, 4) {
                // a clock-limited go with a tiny budget (virtual clock: 20 us per node)
                return format!("go movetime {}\n", rng.pick(&[0u64, 1, 2, 5, 9, 10, 11, 20]));
            }
            format!("go depth {}", rng.range(1, 2))
        }
    };
    let pad_l = if rng.chance(1, 8) { "  " } else { "" };
    let pad_r = if rng.chance(1, 8) { " \t" } else { "" };
    let eol = if rng.chance(1, 5) { "\r\n" } else { "\n" };
    format!("{}{}{}{}", pad_l, body, pad_r, eol)
}

/// C16 is not about FEN counters (that is C04): keep them in one byte.
fn clamp_counters(p: &Pos) -> Pos {
    let mut q = p.clone();
    q.halfmove = q.halfmove.min(99);
    q.fullmove = q.fullmove.clamp(1, 200);
    q
}

/// A long burst (hundreds of lines, several KiB) of handshake commands, blank, unknown and
/// undecodable lines, delivered in one read or in large blocks: a session replayed from a
/// file, or input queued while the engine was busy. Exercises whatever buffering the read
/// loop does (a command straddling a block boundary) and whatever it accumulates over a
/// long session.
pub fn gen_bulk_script(rng: &mut Rng) -> Scenario {
    let n = rng.range(300, 1500) as usize;
    let mut lines: Vec<String> = Vec::with_capacity(n + 1);
    let bad_rate = *rng.pick(&[0u64, 0, 10, 30, 100]);
    for _ in 0..n {
        let body = match rng.below(12) {
            0 => "uci".to_string(),
            1..=5 => "isready".to_string(),
            6 => String::new(),
            7 => "ucinewgame".to_string(),
            8 | 9 => rng.pick(UNKNOWN_LINES).to_string(),
            10 => "x".repeat(rng.range(1, 40) as usize),
            _ => "position startpos".to_string(),
        };
        let body = if rng.below(1000) < bad_rate { format!("setoption name Path value /home/J{}rg/tb", BAD) } else { body };
        let eol = if rng.chance(1, 10) { "\r\n" } else { "\n" };
        lines.push(format!("{}{}", body, eol));
    }
    if rng.chance(1, 2) {
        lines.push("quit\n".to_string());
    }
    Scenario {
        lines,
        cut: None,
        chunking: *rng.pick(&[1usize, 1, 4096, 8192, 1000, 65536, 512]),
        read_error_before_line: None,
        eintr_every: 0,
        key_seed: rng.next_u64(),
    }
}

/// `quit` as GUIs and humans type it: plain, with CR, with blanks or a tab around it.
fn quit_line(rng: &mut Rng) -> String {
    rng.pick(&["quit\n", "quit\n", "quit\n", "quit\r\n", "quit \n", " quit\n", "quit\t\n", "  quit  \r\n"]).to_string()
}

pub fn gen_script(rng: &mut Rng) -> Scenario {
    let heavy = rng.chance(1, 3);
    let n = rng.range(1, if heavy { 7 } else { 10 }) as usize;
    let mut lines: Vec<String> = (0..n).map(|_| gen_line(rng, heavy)).collect();
    if heavy {
        // a go is only meaningful (and bounded) after a position of at least one legal move;
        // make sure any go is depth-limited and preceded by a position
        let mut have_pos = false;
        for l in lines.iter_mut() {
            if l.trim_start().starts_with("position") {
                have_pos = true;
            }
            if l.trim_start().starts_with("go") && !have_pos {
                *l = "position startpos\n".to_string();
                have_pos = true;
            }
        }
    }
    // one heavy script in three ends with a pondering block (go ponder, a few other lines,
    // stop or ponderhit): with the end-of-input enumeration this puts the end of input
    // between the go ponder and its release
    if heavy && rng.chance(1, 3) {
        if !lines.iter().any(|l| l.trim_start().starts_with("position")) {
            lines.push("position startpos\n".to_string());
        }
        let mut b = format!("go ponder depth {}\n", rng.range(1, 2));
        for _ in 0..rng.below(3) {
            let m: &str = *rng.pick(&["isready\n", "\n", "xyzzy\n", "isready\n"]);
            b.push_str(m);
        }
        let e: &str = *rng.pick(&["stop\n", "ponderhit\n", "stop\n"]);
        b.push_str(e);
        lines.push(b);
    }
    // one script in five switches debug mode on near its start (a GUI's debug check box): an
    // engine in debug mode may explain itself with `info string` lines when it answers a
    // command, never in response to a line it is supposed not to understand
    if rng.chance(1, 5) {
        let at = rng.usize_below(lines.len().min(2) + 1);
        lines.insert(at, "debug on\n".to_string());
    }
    match rng.below(4) {
        0 => {}
        1 | 2 => lines.push(if rng.chance(1, 4) { "quit".to_string() } else { quit_line(rng) }),
        _ => {
            let at = rng.usize_below(lines.len() + 1);
            let q = quit_line(rng);
            lines.insert(at, q);
        }
    }
    Scenario {
        lines,
        cut: None,
        chunking: match rng.below(5) {
            0 | 1 | 2 => 0,
            3 => 1,
            _ => rng.range(2, 40) as usize,
        },
        read_error_before_line: None,
        eintr_every: 0,
        key_seed: rng.next_u64(),
    }
}

/// The delivered stream as the protocol sees it: one entry per line (terminator and
/// surrounding blanks removed), `None` for a line that is not valid UTF-8.
fn delivered_lines(bytes: &[u8]) -> Vec<Option<String>> {
    let mut out = vec![];
    let mut start = 0;
    for i in 0..bytes.len() {
        if bytes[i] == b'\n' {
            out.push(bytes[start..=i].to_vec());
            start = i + 1;
        }
    }
    if start < bytes.len() {
        out.push(bytes[start..].to_vec());
    }
    out.into_iter()
        .map(|l| String::from_utf8(l).ok().map(|s| s.trim().to_string()))
        .collect()
}

fn first_token(l: &str) -> &str {
    l.split_whitespace().next().unwrap_or("")
}

/// Is this cut inside the property's quantifier? A cut that leaves a truncated
/// `position` / `go` command manufactures malformed input (`go depth` without its number
/// is an unbounded search) and is skipped.
fn cut_in_scope(sc: &Scenario, cut: usize) -> bool {
    let all = sc.all_bytes();
    let delivered = &all[..cut];
    let last_start = delivered.iter().rposition(|&b| b == b'\n').map(|i| i + 1).unwrap_or(0);
    if last_start == delivered.len() {
        return true; // cut at a line boundary
    }
    let partial = &delivered[last_start..];
    let Ok(ps) = std::str::from_utf8(partial) else {
        // cut inside a multi-byte character: the line is undecodable = not understood
        return true;
    };
    let tok = first_token(ps.trim());
    if tok != "position" && tok != "go" {
        return true;
    }
    // complete command whose terminator is missing?
    let line_end = all[last_start..]
        .iter()
        .position(|&b| b == b'\n')
        .map(|i| last_start + i)
        .unwrap_or(all.len());
    let full = String::from_utf8_lossy(&all[last_start..line_end]).to_string();
    full.trim() == ps.trim()
}

#[derive(Debug)]
struct Expect {
    /// expected output groups in order
    groups: Vec<&'static str>,
    quit_seen: bool,
}

fn expectation(lines: &[Option<String>]) -> Expect {
    let mut groups = vec![];
    let mut quit_seen = false;
    for l in lines {
        let Some(l) = l else { continue };
        match first_token(l) {
            "uci" => groups.push("uci"),
            "isready" => groups.push("isready"),
            "go" => groups.push(if l.split_whitespace().any(|t| t == "ponder") { "go_ponder" } else { "go" }),
            "stop" | "ponderhit" => groups.push("release"),
            "quit" => {
                quit_seen = true;
                break;
            }
            _ => {}
        }
    }
    Expect { groups, quit_seen }
}

/// Matches the output against the expected groups; Err(description) on mismatch.
fn match_output(out: &[String], exp: &Expect) -> Result<(), String> {
    let mut i = 0;
    // answers to `go ponder` still held back
    let mut pending = 0usize;
    for g in &exp.groups {
        match *g {
            "uci" => {
                let mut ids = 0;
                while i < out.len() && (out[i].starts_with("id ") || out[i].starts_with("option ")) {
                    if out[i].starts_with("id name ") || out[i].starts_with("id author ") {
                        ids += 1;
                    }
                    i += 1;
                }
                if ids == 0 {
                    return Err(format!("uci: no id line at output line {}", i));
                }
                if out.get(i).map(|s| s.as_str()) != Some("uciok") {
                    return Err(format!("uci: expected uciok at output line {}, got {:?}", i, out.get(i)));
                }
                i += 1;
            }
            "isready" => {
                if out.get(i).map(|s| s.as_str()) != Some("readyok") {
                    return Err(format!("isready: expected readyok at output line {}, got {:?}", i, out.get(i)));
                }
                i += 1;
            }
            "go_ponder" => {
                // the answer now, or held back until stop / ponderhit (or never, if the
                // session ends first)
                while i < out.len() && out[i].starts_with("info") {
                    i += 1;
                }
                if out.get(i).map(|s| s.starts_with("bestmove ")).unwrap_or(false) {
                    i += 1;
                } else {
                    pending += 1;
                }
            }
            "release" => {
                if pending > 0 {
                    let mut k = i;
                    while k < out.len() && out[k].starts_with("info") {
                        k += 1;
                    }
                    if out.get(k).map(|s| s.starts_with("bestmove ")).unwrap_or(false) {
                        i = k + 1;
                        pending -= 1;
                    }
                }
            }
            _ => {
                while i < out.len() && out[i].starts_with("info") {
                    i += 1;
                }
                if !out.get(i).map(|s| s.starts_with("bestmove ")).unwrap_or(false) {
                    return Err(format!("go: expected bestmove at output line {}, got {:?}", i, out.get(i)));
                }
                i += 1;
            }
        }
    }
    if i < out.len() {
        return Err(format!("unexpected output line {:?}", out[i]));
    }
    Ok(())
}

pub struct RunResult {
    pub outcome: Outcome,
    /// per output line: number of input chunks delivered before it was written
    pub out_after: Vec<u64>,
    pub out_lines: Vec<String>,
    pub out_partial: String,
    pub log_hash: u64,
    pub faults: FaultCounts,
    pub sim_ns: u64,
    pub log: Vec<String>,
}

pub fn run_scenario(sc: &Scenario, keep_log: bool) -> RunResult {
    let mut st = SimState::new(sc.key_seed, sc.key_seed ^ 0x5555);
    st.keep_log = keep_log;
    st.max_nodes_per_search = 5_000_000;
    // 20 us of virtual time per node: `go movetime 20` is worth a thousand nodes
    st.clock.cost_node_ns = 20_000;
    let bytes = sc.delivered_bytes();
    // chunking
    if sc.chunking == 0 || sc.read_error_before_line.is_some() {
        let mut start = 0;
        let mut line_idx = 0;
        for i in 0..bytes.len() {
            if bytes[i] == b'\n' {
                if sc.read_error_before_line == Some(line_idx) {
                    st.input.push_back(Chunk::Err(std::io::ErrorKind::Other));
                }
                st.push_bytes(&bytes[start..=i]);
                start = i + 1;
                line_idx += 1;
            }
        }
        if start < bytes.len() {
            if sc.read_error_before_line == Some(line_idx) {
                st.input.push_back(Chunk::Err(std::io::ErrorKind::Other));
            }
            st.push_bytes(&bytes[start..]);
        }
    } else if sc.chunking == 1 {
        if !bytes.is_empty() {
            st.push_bytes(&bytes);
        }
    } else {
        for c in bytes.chunks(sc.chunking) {
            st.push_bytes(c);
        }
    }
    if sc.eintr_every > 0 {
        let chunks: Vec<Chunk> = st.input.drain(..).collect();
        for (i, c) in chunks.into_iter().enumerate() {
            if (i + 1) % sc.eintr_every == 0 {
                st.input.push_back(Chunk::Err(std::io::ErrorKind::Interrupted));
            }
            st.input.push_back(c);
        }
    }
    st.ev(&format!("cfg c16 key_seed={} chunking={} eintr_every={}", sc.key_seed, sc.chunking, sc.eintr_every));
    let proc_ = Proc::start(st, None);
    let (outcome, _) = proc_.run(|| {
        let mut f = engine::uci::Flounder::new();
        f.uci_loop();
    });
    let st = proc_.finish();
    let st = st.borrow();
    RunResult {
        outcome,
        out_after: st.out_line_after_chunks.clone(),
        out_lines: st.out_lines.clone(),
        out_partial: st.out_partial.clone(),
        log_hash: st.log_hash,
        faults: st.faults.clone(),
        sim_ns: st.now_ns - 1_000_000_000,
        log: st.log.clone(),
    }
}

/// Judges one run. Returns (class, detail) of the violation, if any.
pub fn judge(sc: &Scenario, r: &RunResult) -> Option<(String, String)> {
    let bytes = sc.delivered_bytes();
    let lines = delivered_lines(&bytes);
    match &r.outcome {
        Outcome::Aborted(Abort::SpinsAtEof) => {
            return Some((
                "spins_at_eof".into(),
                format!("no termination within {} reads after end of input", 8),
            ))
        }
        // step cap under a depth-limited go: inconclusive (C16 sets no time bound), counted
        Outcome::Aborted(Abort::NodeCap) => {
            if lines.iter().flatten().any(|l| first_token(l) == "go" && l.split_whitespace().any(|t| t == "movetime")) && !lines.iter().flatten().any(|l| first_token(l) == "go" && l.split_whitespace().any(|t| t == "infinite" || t == "64")) {
                return Some(("no_answer_under_a_clock".into(), "a go movetime of at most 20 ms (a thousand nodes on this virtual clock) is still unanswered after five million nodes".into()));
            }
            return None;
        }
        Outcome::Aborted(a) => return Some(("diverged".into(), format!("{:?}", a))),
        Outcome::Crash(m) => return Some(("crash".into(), m.clone())),
        Outcome::Exit(c) if *c != 0 => {
            return Some(("exit_status".into(), format!("exit status {}", c)))
        }
        _ => {}
    }
    if !r.out_partial.is_empty() {
        return Some((
            "output_mismatch".into(),
            format!("unterminated output {:?}", r.out_partial),
        ));
    }
    // Line-by-line delivery (one read() = one line, no injected error): every output line
    // can be attributed to the input line read last. Nothing at all - `info string` lines
    // included - may be written in response to a blank line or a line the engine is not
    // supposed to understand.
    if sc.chunking == 0 && sc.read_error_before_line.is_none() && sc.eintr_every == 0 && r.out_after.len() == r.out_lines.len() {
        for (o, after) in r.out_lines.iter().zip(r.out_after.iter()) {
            let k = *after as usize;
            if k == 0 || k > lines.len() {
                continue;
            }
            let is_cmd = lines[k - 1].as_deref().map(|x| ["uci", "debug", "isready", "setoption", "register", "ucinewgame", "position", "go", "stop", "ponderhit", "quit"].contains(&first_token(x))).unwrap_or(false);
            if !is_cmd {
                return Some(("unknown_line_answered".into(), format!("input line {} ({:?}) is not a command, yet the engine wrote {:?} after reading it", k, lines[k - 1].as_deref().map(|x| x.chars().take(60).collect::<String>()), o)));
            }
        }
    }
    // `info string` lines may accompany the answer to any command (an engine in debug mode
    // explains itself); they are not part of the answers themselves
    let out_wo_info_strings: Vec<String> = r.out_lines.iter().filter(|l| !l.starts_with("info string")).cloned().collect();
    // Which prefixes of the input may legitimately have been processed?
    let mut candidates: Vec<&[Option<String>]> = vec![&lines[..]];
    if let Some(k) = sc.read_error_before_line {
        if k <= lines.len() {
            // after a transient I/O error the engine may carry on or terminate cleanly
            candidates.push(&lines[..k]);
        }
    }
    let mut errs = vec![];
    for cand in candidates {
        let exp = expectation(cand);
        match match_output(&out_wo_info_strings, &exp) {
            Ok(()) => return None,
            Err(e) => errs.push(e),
        }
    }
    Some(("output_mismatch".into(), errs.join(" | ")))
}

fn violation(sc: &Scenario, r: &RunResult, class: String, detail: String, i: u64, seed: u64) -> Violation {
    Violation {
        prop: "C16".into(),
        class,
        detail,
        scenario: sc.to_json(),
        sim_index: i,
        sim_seed: seed,
        log_hash: r.log_hash,
    }
}

pub fn replay_value(v: &Value) -> Vec<Violation> {
    if v.get("twin_without_unknown_lines").is_some() {
        let Some(full) = Scenario::from_json(&v["scenario"]) else { return vec![] };
        let all = delivered_lines(&full.all_bytes());
        let is_cmd = |l: &Option<String>| l.as_deref().map(|x| ["uci", "debug", "isready", "setoption", "register", "ucinewgame", "position", "go", "stop", "ponderhit", "quit"].contains(&first_token(x))).unwrap_or(false);
        let mut filtered = full.clone();
        filtered.lines = all.iter().filter(|l| is_cmd(l)).map(|l| format!("{}\n", l.as_deref().unwrap())).collect();
        let ra = run_scenario(&full, false);
        let rb = run_scenario(&filtered, false);
        let ta: Vec<String> = ra.out_lines.iter().map(|l| realbin::strip_time_fields(l)).collect();
        let tb: Vec<String> = rb.out_lines.iter().map(|l| realbin::strip_time_fields(l)).collect();
        if ta != tb {
            let k = (0..ta.len().max(tb.len())).find(|&k| ta.get(k) != tb.get(k)).unwrap_or(0);
            let mut x = violation(&full, &ra, "unknown_line_changes_later_answers".into(), format!("with the blank/unknown/undecodable lines the session prints {:?} at output line {}, without them {:?}", ta.get(k), k, tb.get(k)), 0, 0);
            x.scenario = v.clone();
            return vec![x];
        }
        return vec![];
    }
    let Some(sc) = Scenario::from_json(v) else { return vec![] };
    let r = run_scenario(&sc, false);
    match judge(&sc, &r) {
        Some((c, d)) => vec![violation(&sc, &r, c, d, 0, 0)],
        None => vec![],
    }
}

pub fn shrink_value(v: &Value) -> Vec<Value> {
    if v.get("twin_without_unknown_lines").is_some() {
        let Some(full) = Scenario::from_json(&v["scenario"]) else { return vec![] };
        let mut out = vec![];
        for i in 0..full.lines.len() {
            let mut n = full.clone();
            n.lines.remove(i);
            out.push(json!({"twin_without_unknown_lines": true, "scenario": n.to_json()}));
        }
        return out;
    }
    let Some(sc) = Scenario::from_json(v) else { return vec![] };
    let mut out = vec![];
    let total = sc.all_bytes().len();
    // normalise: drop everything after the cut
    if let Some(c) = sc.cut {
        if c < total {
            let bytes = sc.delivered_bytes();
            if let Ok(s) = String::from_utf8(bytes) {
                let mut lines: Vec<String> = s.split_inclusive('\n').map(|x| x.to_string()).collect();
                if lines.is_empty() {
                    lines = vec![];
                }
                let mut n = sc.clone();
                n.lines = lines;
                n.cut = None;
                out.push(n.to_json());
            }
        } else {
            let mut n = sc.clone();
            n.cut = None;
            out.push(n.to_json());
        }
    }
    if sc.read_error_before_line.is_some() {
        let mut n = sc.clone();
        n.read_error_before_line = None;
        out.push(n.to_json());
    }
    if sc.chunking != 0 {
        let mut n = sc.clone();
        n.chunking = 0;
        out.push(n.to_json());
    }
    if sc.eintr_every != 0 {
        let mut n = sc.clone();
        n.eintr_every = 0;
        out.push(n.to_json());
    }
    for i in 0..sc.lines.len() {
        let mut n = sc.clone();
        n.lines.remove(i);
        if let Some(k) = n.read_error_before_line {
            if k > i {
                n.read_error_before_line = Some(k - 1);
            }
        }
        if sc.cut.is_some() {
            continue;
        }
        out.push(n.to_json());
    }
    for i in 0..sc.lines.len() {
        if sc.cut.is_some() {
            break;
        }
        let l = &sc.lines[i];
        if l != "\n" && l.trim() != "x" && first_token(l.trim()) != "quit" {
            let mut n = sc.clone();
            n.lines[i] = if l.contains('\n') { "x\n".into() } else { "x".into() };
            out.push(n.to_json());
        }
        if l.ends_with("\r\n") {
            let mut n = sc.clone();
            n.lines[i] = format!("{}\n", l.trim_end());
            out.push(n.to_json());
        }
    }
    if sc.key_seed != 0 {
        let mut n = sc.clone();
        n.key_seed = 0;
        out.push(n.to_json());
    }
    out
}

fn script_shape(sc: &Scenario) -> u64 {
    let kinds: Vec<String> = sc
        .lines
        .iter()
        .map(|l| {
            let t = first_token(l.trim());
            match t {
                "uci" | "isready" | "ucinewgame" | "position" | "go" | "quit" => t.to_string(),
                "" => "blank".into(),
                _ => "unknown".into(),
            }
        })
        .collect();
    hash_str(&kinds.join(","))
}

/// One bulk script: the whole stream, and a few cuts (line boundaries and mid-line).
fn run_bulk(rng: &mut Rng, i: u64, seed: u64) -> SimResult {
    let mut res = SimResult::default();
    let base = gen_bulk_script(rng);
    let total = base.all_bytes().len();
    let mut log_hash = crate::rng::FNV_INIT;
    let mut runs = vec![base.clone()];
    for _ in 0..4 {
        let c = rng.usize_below(total + 1);
        if cut_in_scope(&base, c) {
            let mut s = base.clone();
            s.cut = Some(c);
            s.chunking = *rng.pick(&[1usize, 4096, 1000, 8192]);
            runs.push(s);
        }
    }
    {
        let mut s = base.clone();
        s.eintr_every = rng.range(2, 9) as usize;
        s.chunking = *rng.pick(&[100usize, 1000, 4096]);
        runs.push(s);
    }
    res.probes.add("bulk_scripts", 1);
    res.probes.add("bulk_script_bytes", total as u64);
    for sc in &runs {
        let r = run_scenario(sc, false);
        res.evaluations += 1;
        res.sim_time_ns += r.sim_ns;
        log_hash = crate::rng::fnv1a(log_hash, &r.log_hash.to_le_bytes());
        res.distinct.push(hash_str(&format!("bulk:{}:{:?}:{}:{}", seed, sc.cut, sc.chunking, sc.eintr_every)));
        let delivered = sc.delivered_bytes();
        let dl = delivered_lines(&delivered);
        let undec = dl.iter().filter(|l| l.is_none()).count() as u64;
        res.faults.add("undecodable_line", undec);
        res.probes.max("max_undecodable_lines_in_one_session", undec);
        if !expectation(&dl).quit_seen {
            res.faults.add("eof_without_quit", 1);
        }
        if sc.eintr_every > 0 {
            res.faults.add("read_interrupted_eintr", r.faults.read_error);
        }
        if let Some((class, detail)) = judge(sc, &r) {
            res.violations.push(violation(sc, &r, class, detail, i, seed));
        }
    }
    res.log_hash = log_hash;
    res
}

/// A very long run of consecutive lines without a command (60 000 - 250 000 blank,
/// blanks-only, CR-only and undecodable lines), then `isready`: whatever the input loop does
/// per skipped line must not add up (stack, buffers, counters). Run in the simulation (with
/// the stack probe in the input path) and, whole, on the real binary with its real 8 MiB stack.
fn run_blank_run(rng: &mut Rng, i: u64, seed: u64, real_bin: &Option<std::path::PathBuf>) -> SimResult {
    let mut res = SimResult::default();
    let n = rng.range(60_000, 250_000) as usize;
    let kinds: Vec<String> = vec!["\n".to_string(), "\n".to_string(), " \n".to_string(), "\t \n".to_string(), "\r\n".to_string(), format!("{}\n", BAD)];
    let uniform = rng.chance(1, 2);
    let first = rng.pick(&kinds).clone();
    let mut run = String::with_capacity(n * 2);
    for _ in 0..n {
        if uniform {
            run.push_str(&first);
        } else {
            let k = rng.pick(&kinds).clone();
            run.push_str(&k);
        }
    }
    let mut lines = vec![];
    if rng.chance(1, 2) {
        lines.push("uci\n".to_string());
    }
    lines.push(run);
    lines.push("isready\n".to_string());
    if rng.chance(1, 2) {
        lines.push("quit\n".to_string());
    }
    let sc = Scenario { lines, cut: None, chunking: *rng.pick(&[1usize, 65536, 8192, 0]), read_error_before_line: None, eintr_every: 0, key_seed: rng.next_u64() };
    res.probes.add("scripts_with_a_run_of_60000_or_more_lines_without_a_command", 1);
    res.probes.max("max_consecutive_lines_without_a_command", n as u64);
    let r = run_scenario(&sc, false);
    res.evaluations += 1;
    res.sim_time_ns += r.sim_ns;
    res.log_hash = crate::rng::fnv1a(crate::rng::FNV_INIT, &r.log_hash.to_le_bytes());
    res.distinct.push(hash_str(&format!("blankrun:{}:{}", seed, n)));
    if let Some((class, detail)) = judge(&sc, &r) {
        res.violations.push(violation(&sc, &r, class, detail, i, seed));
        return res;
    }
    if let Some(bin) = real_bin {
        let delivered = sc.delivered_bytes();
        if let Ok(rr) = realbin::run_real(bin, &delivered, std::time::Duration::from_secs(60)) {
            res.probes.add("real_binary_runs", 1);
            let sim_t: Vec<String> = r.out_lines.iter().map(|l| realbin::strip_time_fields(l)).collect();
            let real_t = realbin::normalise_transcript(&rr.stdout);
            if !(rr.outcome == realbin::RealOutcome::Exited(0) && sim_t == real_t) {
                res.violations.push(violation(&sc, &r, "real_binary_differs".into(), format!("real outcome {:?}, real transcript {:?} vs simulated {:?}", rr.outcome, real_t, sim_t), i, seed));
            }
        }
    }
    res
}

pub fn run(ctx: &Ctx) -> i32 {
    let scripts = ctx.n(96, 2400);
    let real_bin = realbin::real_binary_path();
    let rep = run_batch(scripts, ctx.workers, |i| {
        let seed = derive(ctx.seed, "C16", i);
        let mut rng = Rng::new(seed);
        if i % 8 == 5 {
            return run_bulk(&mut rng, i, seed);
        }
        if i % 48 == 14 {
            return run_blank_run(&mut rng, i, seed, &real_bin);
        }
        let base = gen_script(&mut rng);
        let total = base.all_bytes().len();
        let mut res = SimResult::default();
        let mut log_hash = crate::rng::FNV_INIT;
        let shape = script_shape(&base);
        if base.lines.iter().any(|l| l.contains("go ponder")) {
            res.probes.add("scripts_with_go_ponder", 1);
        }
        let heavy = base.lines.iter().any(|l| {
            let t = first_token(l.trim());
            t == "position" || t == "go" || t == "ucinewgame"
        });
        // fault enumeration: every cut for light scripts; for heavy ones (each process
        // costs tens of ms) every line boundary +-1 and a seeded third of the rest
        let mut runs: Vec<Scenario> = vec![];
        let boundaries: Vec<usize> = {
            let b = base.all_bytes();
            (0..b.len()).filter(|&k| b[k] == b'\n').flat_map(|k| [k, k + 1]).collect()
        };
        let mut enumerated_all = true;
        for c in 0..=total {
            if !cut_in_scope(&base, c) {
                res.probes.add("cuts_skipped_truncated_position_or_go", 1);
                continue;
            }
            if heavy && total > 60 && !boundaries.contains(&c) && c != 0 && c != total && !rng.chance(1, 3) {
                enumerated_all = false;
                continue;
            }
            let mut s = base.clone();
            s.cut = if c == total { None } else { Some(c) };
            runs.push(s);
        }
        if enumerated_all {
            res.probes.add("scripts_with_every_cut_enumerated", 1);
        }
        // transient read error at a seeded line, full stream
        if !base.lines.is_empty() {
            let mut s = base.clone();
            s.read_error_before_line = Some(rng.usize_below(base.lines.len()));
            runs.push(s);
        }
        // reads interrupted by signals (EINTR), full stream and one seeded cut, small chunks
        if !base.lines.is_empty() {
            for k in 0..2 {
                let mut s = base.clone();
                s.eintr_every = rng.range(1, 3) as usize;
                if s.chunking == 0 && rng.chance(1, 2) {
                    s.chunking = rng.range(2, 12) as usize;
                }
                if k == 1 {
                    let c = rng.usize_below(total + 1);
                    if !cut_in_scope(&base, c) {
                        continue;
                    }
                    s.cut = if c == total { None } else { Some(c) };
                }
                runs.push(s);
            }
        }
        // "ignores lines it does not understand": the same session without them must give
        // the same answers (only scripts that search; searches are depth-limited)
        if heavy {
            let all = delivered_lines(&base.all_bytes());
            let is_cmd = |l: &Option<String>| l.as_deref().map(|x| ["uci", "debug", "isready", "setoption", "register", "ucinewgame", "position", "go", "stop", "ponderhit", "quit"].contains(&first_token(x))).unwrap_or(false);
            if all.iter().any(|l| !is_cmd(l)) {
                let mut full = base.clone();
                full.cut = None;
                full.chunking = 0;
                let mut filtered = full.clone();
                filtered.lines = all.iter().filter(|l| is_cmd(l)).map(|l| format!("{}\n", l.as_deref().unwrap())).collect();
                let ra = run_scenario(&full, false);
                let rb = run_scenario(&filtered, false);
                res.evaluations += 2;
                log_hash = crate::rng::fnv1a(log_hash, &ra.log_hash.to_le_bytes());
                log_hash = crate::rng::fnv1a(log_hash, &rb.log_hash.to_le_bytes());
                res.probes.add("sessions_compared_with_and_without_their_unknown_lines", 1);
                let ok_a = matches!(ra.outcome, Outcome::Exit(0) | Outcome::Returned);
                let ok_b = matches!(rb.outcome, Outcome::Exit(0) | Outcome::Returned);
                if ok_a && ok_b {
                    let ta: Vec<String> = ra.out_lines.iter().map(|l| realbin::strip_time_fields(l)).collect();
                    let tb: Vec<String> = rb.out_lines.iter().map(|l| realbin::strip_time_fields(l)).collect();
                    if ta != tb {
                        let k = (0..ta.len().max(tb.len())).find(|&k| ta.get(k) != tb.get(k)).unwrap_or(0);
                        let mut v = violation(&full, &ra, "unknown_line_changes_later_answers".into(), format!("with the blank/unknown/undecodable lines the session prints {:?} at output line {}, without them {:?}", ta.get(k), k, tb.get(k)), i, seed);
                        v.scenario = json!({"twin_without_unknown_lines": true, "scenario": full.to_json()});
                        res.violations.push(v);
                    }
                }
            }
        }
        let has_clocked_go = base.lines.iter().any(|l| l.contains("movetime"));
        let real_sample: Option<usize> = if real_bin.is_some() && i % 4 == 0 && !has_clocked_go {
            Some(rng.usize_below(runs.len()))
        } else {
            None
        };
        for (ri, sc) in runs.iter().enumerate() {
            let r = run_scenario(sc, false);
            res.evaluations += 1;
            res.sim_time_ns += r.sim_ns;
            log_hash = crate::rng::fnv1a(log_hash, &r.log_hash.to_le_bytes());
            let delivered = sc.delivered_bytes();
            let dl = delivered_lines(&delivered);
            let has_quit = expectation(&dl).quit_seen;
            res.distinct
                .push(hash_str(&format!("{}:{:?}:{:?}:{}", shape, sc.cut, sc.read_error_before_line, sc.eintr_every)));
            if !has_quit {
                res.faults.add("eof_without_quit", 1);
            }
            if !delivered.is_empty() && *delivered.last().unwrap() != b'\n' {
                res.faults.add("eof_mid_line", 1);
            }
            if delivered.is_empty() {
                res.probes.add("eof_at_offset_0", 1);
            }
            if sc.read_error_before_line.is_some() {
                res.faults.add("read_error", r.faults.read_error);
            }
            if sc.eintr_every > 0 {
                res.faults.add("read_interrupted_eintr", r.faults.read_error);
            }
            if dl.iter().any(|l| l.is_none()) {
                res.faults.add("undecodable_line", 1);
            }
            if has_quit {
                let all = delivered_lines(&sc.all_bytes());
                let qpos = all.iter().position(|l| l.as_deref().map(first_token) == Some("quit"));
                if let Some(q) = qpos {
                    if q + 1 < all.len() {
                        res.probes.add("quit_not_last_line", 1);
                    }
                }
            }
            // unknown line between position and go
            let toks: Vec<&str> = dl.iter().map(|l| l.as_deref().map(first_token).unwrap_or("?")).collect();
            for w in toks.windows(3) {
                if w[0] == "position" && w[2] == "go" && !["uci", "isready", "ucinewgame", "position", "go", "quit"].contains(&w[1]) {
                    res.probes.add("unknown_line_between_position_and_go", 1);
                }
            }
            if sc.cut.is_some() {
                // input ending while an answer to `go ponder` may still be held back
                let d = delivered_lines(&delivered);
                let mut waiting = false;
                for l in d.iter().flatten() {
                    match first_token(l) {
                        "go" => waiting = l.split_whitespace().any(|t| t == "ponder"),
                        "stop" | "ponderhit" | "quit" => waiting = false,
                        _ => {}
                    }
                }
                if waiting {
                    res.probes.add("input_ended_between_go_ponder_and_stop_or_ponderhit", 1);
                }
            }
            match &r.outcome {
                Outcome::Aborted(Abort::NodeCap) => res.probes.add("inconclusive_step_cap", 1),
                Outcome::Exit(0) => res.probes.add("terminated_by_exit0", 1),
                Outcome::Returned => res.probes.add("terminated_by_return", 1),
                _ => {}
            }
            if let Some((class, detail)) = judge(sc, &r) {
                res.violations.push(violation(sc, &r, class, detail, i, seed));
            } else if Some(ri) == real_sample {
                // fidelity: same bytes to the real binary (only for runs the sim says terminate)
                if sc.read_error_before_line.is_none() && sc.eintr_every == 0 {
                    if let Some(bin) = &real_bin {
                        if let Ok(rr) = realbin::run_real(bin, &delivered, std::time::Duration::from_secs(20)) {
                            res.probes.add("real_binary_runs", 1);
                            let sim_t: Vec<String> = r.out_lines.iter().map(|l| realbin::strip_time_fields(l)).collect();
                            let real_t = realbin::normalise_transcript(&rr.stdout);
                            let ok = rr.outcome == realbin::RealOutcome::Exited(0) && sim_t == real_t;
                            if !ok {
                                res.violations.push(violation(
                                    sc,
                                    &r,
                                    "real_binary_differs".into(),
                                    format!("real outcome {:?}, real transcript {:?} vs simulated {:?}", rr.outcome, real_t, sim_t),
                                    i,
                                    seed,
                                ));
                            }
                        }
                    }
                }
            }
        }
        res.log_hash = log_hash;
        if i < 3 {
            res.sample = Some(json!({
                "script_lines": base.lines,
                "chunking": base.chunking,
                "cuts_run": runs.len(),
                "bytes": total,
            }));
        }
        res
    });
    let ev = Evidence {
        level: "fault_enumeration",
        rule: "Seeded UCI scripts (uci/isready/ucinewgame/position/go depth<=2/blank/unknown/undecodable lines, CRLF and padding, quit present/absent/not last); for each script every byte offset 0..=len is a crash point 'input ends here' (truncated position/go commands are outside the property and skipped; scripts that run searches enumerate all line boundaries +-1 and a seeded third of the other offsets), plus one transient read error, plus two runs in which every 1st-3rd read() is first interrupted by a signal (EINTR: must be invisible, judged like an undisturbed run). Scripts that search are also run whole with and without their blank/unknown/undecodable lines: the answers must be the same. Heavy scripts sometimes contain `go infinite` / `go depth 64` / bare `go` on a position without legal moves (which ends by itself). One script in eight is a bulk script: 300-1500 handshake/blank/unknown/undecodable lines (several KiB) delivered in one read or in 512 B-64 KiB blocks, run whole, at four seeded cuts and with EINTR. A case is (script shape, cut, read-error position); all are non-trivial (each runs one simulated engine process to termination). Unknown lines include lines starting with characters tools treat specially (#, ;, //, quotes, >, !, @, %, -, [, {, <, $). With line-by-line delivery every output line is attributed to the input line read last: nothing may be written in response to a line that does not start with a UCI command word; info string lines next to answers are tolerated; one script in five switches debug on. A third of the heavy scripts end with a pondering block (go ponder ... stop/ponderhit; the answer may be held back), a quarter of the plain go lines are go movetime 0-20 on a virtual clock of 20 us per node; two scripts per quick batch are runs of 60 000-250 000 lines without a command (stack probe in the input path, and the real binary).".into(),
        extra: {
            let mut m = serde_json::Map::new();
            m.insert("real_binary_available".into(), json!(real_bin.is_some()));
            m.insert("scripts".into(), json!(scripts));
            m
        },
        assumptions: vec![
            "end of input is modelled as read() returning 0 forever; 'terminates' = uci_loop returns or exit(0) within 8 further reads".into(),
            "unknown lines never contain a UCI command word, so an engine that skips unknown leading tokens is not flagged".into(),
            "after an injected transient I/O error (not a decoding error) the engine may either continue or terminate with status 0".into(),
        ],
        exhaustive: None,
    };
    conclude(ctx, &rep, ev, &replay_value, &shrink_value)
}

pub fn replay(path: &std::path::Path) -> i32 {
    let doc: Value = crate::common::read_replay(path);
    let vs = replay_value(&doc["scenario"]);
    conclude_replay("C16", &vs, doc["class"].as_str())
}
