//! C07 — the search stops promptly at its deadline.
//! World S and World U, fault enumeration over the point at which the deadline falls.
//! "Promptly" is measured by the simulator: nodes entered after the first instant at
//! which the virtual clock shows start+limit, at most B.

use crate::common::*;
use crate::gen;
use crate::rng::{derive, fnv1a, Rng, FNV_INIT};
use crate::rules::Pos;
use crate::simworld::*;
use crate::sworld::*;
use engine::board::Board;
use serde_json::{json, Value};
use std::time::Duration;

pub const B: u64 = 4096;

#[derive(Clone, Debug)]
pub struct Scenario {
    pub fen: String,
    pub depth: u8,
    pub key_seed: u64,
    /// Some(j): forced expiry at read j with a huge limit; None: cost model below
    pub forced: Option<u64>,
    pub cost_node_ns: u64,
    pub cost_read_ns: u64,
    pub limit_ms: u64,
    pub stalls: Vec<(u64, u64)>,
    /// drive through `position fen` / `go movetime` and the real uci_loop
    pub via_uci: bool,
    /// earlier searches in the same engine (fills TT/killers/history), each (depth)
    pub warmup_depths: Vec<u8>,
    /// via_uci only: the budget is given as clocks (`go wtime W btime W winc 0 binc 0`, W
    /// chosen so that the engine's own allocation is the intended budget) instead of movetime
    pub clocked: bool,
    /// the warm-up searches are clock-limited too (with a budget they never reach), so that
    /// whatever the timer keeps between searches is exercised
    pub warmup_timed: bool,
    /// via_uci only: other parameters on the clock-limited go line (" nodes 4000000000",
    /// " mate 40", " movestogo 30"): none of them lifts the time limit
    pub go_extra: String,
}

impl Scenario {
    pub fn to_json(&self) -> Value {
        json!({"fen": self.fen, "depth": self.depth, "key_seed": self.key_seed, "forced": self.forced,
            "cost_node_ns": self.cost_node_ns, "cost_read_ns": self.cost_read_ns, "limit_ms": self.limit_ms,
            "stalls": self.stalls.iter().map(|(a, b)| json!([a, b])).collect::<Vec<_>>(),
            "via_uci": self.via_uci, "warmup_depths": self.warmup_depths, "warmup_timed": self.warmup_timed, "clocked": self.clocked, "go_extra": self.go_extra})
    }
    pub fn from_json(v: &Value) -> Option<Scenario> {
        Some(Scenario {
            fen: v["fen"].as_str()?.to_string(),
            depth: v["depth"].as_u64()? as u8,
            key_seed: v["key_seed"].as_u64().unwrap_or(0),
            forced: v["forced"].as_u64(),
            cost_node_ns: v["cost_node_ns"].as_u64().unwrap_or(0),
            cost_read_ns: v["cost_read_ns"].as_u64().unwrap_or(0),
            limit_ms: v["limit_ms"].as_u64().unwrap_or(0),
            stalls: v["stalls"]
                .as_array()
                .map(|a| a.iter().filter_map(|x| Some((x[0].as_u64()?, x[1].as_u64()?))).collect())
                .unwrap_or_default(),
            via_uci: v["via_uci"].as_bool().unwrap_or(false),
            warmup_depths: v["warmup_depths"]
                .as_array()
                .map(|a| a.iter().filter_map(|x| x.as_u64().map(|d| d as u8)).collect())
                .unwrap_or_default(),
            warmup_timed: v["warmup_timed"].as_bool().unwrap_or(false),
            go_extra: v["go_extra"].as_str().unwrap_or("").to_string(),
            clocked: v["clocked"].as_bool().unwrap_or(false),
        })
    }
}

#[derive(Default)]
pub struct ScenarioOutcome {
    pub violations: Vec<(String, String)>,
    pub probes: Counters,
    pub faults: Counters,
    pub log_hash: u64,
    pub overshoot: u64,
    pub sim_ns: u64,
    /// nodes entered by all searches of the scenario (cost accounting)
    pub nodes: u64,
    /// the scenario that actually showed the violation when it is not the one asked for
    pub witness: Option<Scenario>,
}

pub fn run_scenario(bench: &mut Bench, sc: &Scenario) -> ScenarioOutcome {
    let mut out = ScenarioOutcome::default();
    let mut st = SimState::new(sc.key_seed, 0);
    st.ev(&format!("cfg c07 {}", sc.to_json()));
    st.clock.cost_node_ns = sc.cost_node_ns;
    st.clock.cost_read_ns = sc.cost_read_ns;
    st.clock.stalls = sc.stalls.clone();
    let ordinal = sc.warmup_depths.len() as u64;
    if let Some(j) = sc.forced {
        st.clock.forced_expiry.push((ordinal, j));
    }
    st.max_nodes_after_deadline = 64 * B;
    // (a forced-expiry run of an engine that polls rarely needs many nodes to reach read j:
    // such runs are cut earlier and counted as inconclusive)
    st.max_nodes_per_search = if sc.forced.is_some() { 1_500_000 } else { 5_000_000 };
    // forced-expiry runs can only expire at a clock read: a search that stops reading the
    // clock is cut here and judged by a witness run with the deadline inside the gap
    st.max_poll_gap = if sc.forced.is_some() { 8 * B } else { u64::MAX };
    let limit = if sc.forced.is_some() { HUGE_LIMIT } else { Duration::from_millis(sc.limit_ms) };
    let target_rec: Option<SearchRecord>;
    let outcome: Outcome;
    let end_ns: u64;
    let last_state: std::rc::Rc<std::cell::RefCell<SimState>>;
    if sc.via_uci {
        // World U: the same through the text protocol and the real uci_loop
        if !sc.warmup_depths.is_empty() {
            st.push_line(&format!("position fen {}", sc.fen));
            for d in &sc.warmup_depths {
                if sc.warmup_timed {
                    st.push_line(&format!("go depth {} movetime {}", d, HUGE_LIMIT.as_millis()));
                } else {
                    st.push_line(&format!("go depth {}", d));
                }
            }
        }
        st.push_line(&format!("position fen {}", sc.fen));
        let ms = if sc.forced.is_some() { HUGE_LIMIT.as_millis() as u64 } else { sc.limit_ms };
        if sc.clocked {
            // (W - 5000) / 25 is the engine's allocation today; whatever it allocates, it has
            // to arm it before it starts working
            let w = ms.saturating_mul(25).saturating_add(5000);
            st.push_line(&format!("go wtime {} btime {} winc 0 binc 0{}", w, w, sc.go_extra));
        } else if sc.depth < 64 {
            // both orders occur
            if sc.key_seed % 2 == 0 {
                st.push_line(&format!("go depth {} movetime {}{}", sc.depth, ms, sc.go_extra));
            } else {
                st.push_line(&format!("go movetime {} depth {}{}", ms, sc.depth, sc.go_extra));
            }
        } else {
            st.push_line(&format!("go movetime {}{}", ms, sc.go_extra));
        }
        st.push_line("quit");
        let proc_ = Proc::start(st, None);
        let (o, _) = proc_.run(|| {
            let mut f = engine::uci::Flounder::new();
            f.uci_loop();
        });
        let st = proc_.finish();
        last_state = st.clone();
        let st = st.borrow();
        target_rec = st.searches.get(ordinal as usize).cloned();
        end_ns = st.now_ns;
        out.log_hash = st.log_hash;
        out.faults.add("stall_jump", st.faults.stall_jump);
        out.faults.add("forced_expiry", st.faults.forced_expiry);
        outcome = match o {
            Outcome::Exit(0) => Outcome::Returned,
            o => o,
        };
        // `go movetime T`: the budget of that search is T, whatever else the command says
        // (a depth cap does not switch the clock off); an engine may arm less (overhead)
        if let Some(rec) = &target_rec {
            let ms = if sc.forced.is_some() { HUGE_LIMIT.as_millis() as u64 } else { sc.limit_ms };
            // work done on the clock before the deadline exists counts against "promptly" too
            if rec.pre_nodes > B {
                out.violations.push(("work_before_arming_the_deadline".into(), format!("{} nodes entered after the go command and before the timer was started", rec.pre_nodes)));
            }
            match rec.limit {
                Some(_) if sc.clocked => {}
                None => out.violations.push(("no_deadline_armed".into(), format!("go with movetime {} started a search without a time limit", ms))),
                Some(l) if l.as_millis() as u64 > ms => out.violations.push(("deadline_later_than_movetime".into(), format!("go with movetime {} armed a limit of {} ms", ms, l.as_millis()))),
                _ => {}
            }
        }
        if outcome == Outcome::Returned {
            let bm = st.out_lines.iter().filter(|l| l.starts_with("bestmove")).count();
            if bm != sc.warmup_depths.len() + 1 {
                out.violations.push(("missing_bestmove".into(), format!("{} bestmove lines for {} go commands", bm, sc.warmup_depths.len() + 1)));
            }
        }
    } else {
        let sess = Session::new(st);
        let board = Board::new(&sc.fen);
        sess.fresh(&mut bench.searcher, false);
        let mut o = Outcome::Returned;
        for d in &sc.warmup_depths {
            let r = sess.search(&mut bench.searcher, &board, *d, if sc.warmup_timed { Some(HUGE_LIMIT) } else { None });
            if r.outcome != Outcome::Returned {
                o = r.outcome;
                break;
            }
        }
        let mut rec = None;
        if o == Outcome::Returned {
            let r = sess.search(&mut bench.searcher, &board, sc.depth, Some(limit));
            o = r.outcome.clone();
            rec = r.rec.clone();
            if rec.is_none() {
                rec = sess.st().searches.last().cloned();
            }
        }
        last_state = sess.proc_.st.clone();
        let st = sess.st();
        target_rec = st.searches.get(ordinal as usize).cloned().or(rec);
        end_ns = st.now_ns;
        out.log_hash = st.log_hash;
        out.faults.add("stall_jump", st.faults.stall_jump);
        out.faults.add("forced_expiry", st.faults.forced_expiry);
        outcome = o;
    }
    out.sim_ns = end_ns.saturating_sub(1_000_000_000);
    // the deadline armed for a search must not be replaced, inside the same engine call, by a
    // later one or by none at all
    if last_state.borrow().searches.iter().any(|s| s.drops_deadline) {
        out.violations.push(("deadline_dropped_inside_the_go".into(), "the timer was armed again inside the same go, before its deadline, with a later deadline or without one".into()));
    }
    out.nodes = last_state.borrow().searches.iter().map(|s| s.nodes).sum();
    // a timer re-armed inside the same call continues the same overshoot
    let target_rec = target_rec.map(|r| {
        let st = last_state.borrow();
        let mut best = r.clone();
        for later in st.searches.iter().skip(r.ordinal as usize + 1) {
            if later.inherited_overshoot.is_some() {
                let keep_deadline = best.deadline_passed_at.or(Some((0, 0)));
                let ns = best.ns_at_deadline;
                best = later.clone();
                best.deadline_passed_at = keep_deadline;
                best.ns_at_deadline = ns;
            } else {
                break;
            }
        }
        best
    });
    let Some(rec) = target_rec else {
        // a warm-up search (no clock) that ran into the step cap: nothing to judge
        let warmup_capped = {
            let st = last_state.borrow();
            matches!(outcome, Outcome::Aborted(Abort::NodeCap)) && st.searches.last().map(|s| s.call_id == st.call_id).unwrap_or(false)
        };
        if warmup_capped {
            out.probes.add("inconclusive_warm_up_search_hit_the_step_cap", 1);
        } else if sc.via_uci && matches!(outcome, Outcome::Aborted(Abort::NodeCap)) {
            out.violations.push(("work_before_arming_the_deadline".into(), "the go command ran into the step cap without ever starting the timer".into()));
        } else {
            out.violations.push(("crash".into(), format!("no search was started: {:?}", outcome)));
        }
        return out;
    };
    out.overshoot = rec.nodes_after_deadline;
    match &outcome {
        Outcome::Returned => {}
        Outcome::Aborted(Abort::OvershootCap) => {
            out.violations.push((
                "overshoot".into(),
                format!("more than {} nodes entered after the deadline had passed (deadline at read {}, node {}); run ended by the step cap", 64 * B, rec.deadline_passed_at.map(|x| x.0).unwrap_or(0), rec.deadline_passed_at.map(|x| x.1).unwrap_or(0)),
            ));
            return out;
        }
        Outcome::Aborted(Abort::PollGap(n0)) if rec.deadline_passed_at.is_none() => {
            // witness: same search, deadline expressed in nodes so that it falls inside the gap
            out.probes.add("poll_gap_witness_runs", 1);
            let mut w = sc.clone();
            w.forced = None;
            w.cost_node_ns = 1_000_000;
            w.cost_read_ns = 0;
            w.limit_ms = n0 + 1;
            w.stalls.clear();
            let mut o = run_scenario(bench, &w);
            o.probes.add("poll_gap_witness_runs", 1);
            o.witness = Some(w);
            return o;
        }
        Outcome::Aborted(Abort::NodeCap) if rec.deadline_passed_at.is_none() => {
            // the budget was never reached within the step cap: nothing to judge
            out.probes.add("inconclusive_deadline_not_reached_within_step_cap", 1);
            return out;
        }
        o => {
            out.violations.push(("crash".into(), format!("{:?}", o)));
            return out;
        }
    }
    if rec.deadline_passed_at.is_some() {
        out.faults.add("deadline_expired_mid_search", 1);
        if rec.nodes_after_deadline > B {
            out.violations.push((
                "overshoot".into(),
                format!("{} nodes entered after the deadline had passed (bound {}); deadline at read {}, node {}", rec.nodes_after_deadline, B, rec.deadline_passed_at.unwrap().0, rec.deadline_passed_at.unwrap().1),
            ));
        }
        // time bound, only where the overshoot in time is the engine's own
        if sc.stalls.is_empty() && sc.forced.is_none() && !sc.via_uci {
            let allowed = B * sc.cost_node_ns + 256 * sc.cost_read_ns.max(1) + 8 * B;
            let over = end_ns.saturating_sub(rec.ns_at_deadline);
            if over > allowed {
                out.violations.push((
                    "overshoot_time".into(),
                    format!("returned {} ns after the deadline (allowed {} ns)", over, allowed),
                ));
            }
        }
        let (r_at, n_at) = rec.deadline_passed_at.unwrap();
        if r_at <= 1 && n_at == 0 {
            out.probes.add("expiry_before_first_iteration", 1);
        }
        if rec.qnodes * 10 > rec.nodes * 9 && rec.nodes > 1000 {
            out.probes.add("expiry_deep_inside_quiescence", 1);
        }
        out.probes.max("max_poll_gap_nodes", rec.max_poll_gap_seen);
        if sc.depth >= 64 {
            out.probes.add("depth64_clock_limited", 1);
        }
    } else {
        out.probes.add("search_finished_before_deadline", 1);
    }
    out
}

pub fn replay_value(v: &Value) -> Vec<Violation> {
    let Some(sc) = Scenario::from_json(v) else { return vec![] };
    with_bench(|b| {
        let o = run_scenario(b, &sc);
        o.violations
            .iter()
            .map(|(class, detail)| Violation {
                prop: "C07".into(),
                class: class.clone(),
                detail: detail.clone(),
                scenario: sc.to_json(),
                sim_index: 0,
                sim_seed: 0,
                log_hash: o.log_hash,
            })
            .collect()
    })
}

pub fn shrink_value(v: &Value) -> Vec<Value> {
    let Some(sc) = Scenario::from_json(v) else { return vec![] };
    let mut out = vec![];
    if !sc.go_extra.is_empty() {
        let mut n = sc.clone();
        n.go_extra = String::new();
        out.push(n.to_json());
    }
    if sc.via_uci {
        let mut n = sc.clone();
        n.via_uci = false;
        n.go_extra = String::new();
        out.push(n.to_json());
    }
    if !sc.warmup_depths.is_empty() {
        let mut n = sc.clone();
        n.warmup_depths.clear();
        out.push(n.to_json());
    }
    if sc.warmup_depths.len() > 1 {
        for i in 0..sc.warmup_depths.len() {
            let mut n = sc.clone();
            n.warmup_depths.remove(i);
            out.push(n.to_json());
        }
    }
    if sc.warmup_timed {
        let mut n = sc.clone();
        n.warmup_timed = false;
        out.push(n.to_json());
    }
    if sc.clocked {
        let mut n = sc.clone();
        n.clocked = false;
        out.push(n.to_json());
    }
    if !sc.stalls.is_empty() {
        let mut n = sc.clone();
        n.stalls.clear();
        out.push(n.to_json());
    }
    if sc.depth > 1 {
        for d in [1u8, sc.depth / 2, sc.depth - 1] {
            if d >= 1 && d < sc.depth {
                let mut n = sc.clone();
                n.depth = d;
                out.push(n.to_json());
            }
        }
    }
    if let Some(j) = sc.forced {
        for c in [1, j / 2, j.saturating_sub(1)] {
            if c >= 1 && c < j {
                let mut n = sc.clone();
                n.forced = Some(c);
                out.push(n.to_json());
            }
        }
    } else {
        for c in [0, sc.limit_ms / 2, sc.limit_ms.saturating_sub(1)] {
            if c < sc.limit_ms {
                let mut n = sc.clone();
                n.limit_ms = c;
                out.push(n.to_json());
            }
        }
    }
    if sc.key_seed != 0 {
        let mut n = sc.clone();
        n.key_seed = 0;
        out.push(n.to_json());
    }
    out
}

/// Is this an explosive position: does a depth-1 search exceed `cap` nodes?
fn explosive(bench: &mut Bench, fen: &str, cap: u64) -> bool {
    let mut st = SimState::new(1, 0);
    st.max_nodes_per_search = cap;
    let sess = Session::new(st);
    sess.fresh(&mut bench.searcher, false);
    let board = Board::new(fen);
    let r = sess.search(&mut bench.searcher, &board, 1, None);
    matches!(r.outcome, Outcome::Aborted(Abort::NodeCap))
}

/// One or two earlier searches on the same engine, large enough (depth 3-4) to leave more
/// nodes on its counters than the bound B.
fn warmups(rng: &mut Rng, pos: &Pos, s: &mut Scenario) {
    let maxd = if pos.piece_count() <= 12 { 4 } else { 3 };
    let n = rng.range(1, 2);
    s.warmup_depths = (0..n).map(|_| rng.range(2, maxd) as u8).collect();
    s.warmup_timed = rng.chance(1, 2);
}

/// Read index (within the search) of each completed iteration of an uninterrupted
/// clock-limited search, up to `cap` nodes.
fn iteration_marks(bench: &mut Bench, fen: &str, key_seed: u64, cap: u64) -> Vec<u64> {
    let mut st = SimState::new(key_seed, 0);
    st.max_nodes_per_search = cap;
    let sess = Session::new(st);
    sess.fresh(&mut bench.searcher, false);
    let board = Board::new(fen);
    let r = sess.search(&mut bench.searcher, &board, 64, Some(HUGE_LIMIT));
    let rec = r.rec.or_else(|| sess.st().searches.last().cloned());
    rec.map(|r| r.info_marks.iter().map(|m| m.0).collect()).unwrap_or_default()
}

pub fn run(ctx: &Ctx) -> i32 {
    let sims = ctx.n(240, 2400);
    let per_pos: u64 = match ctx.tier {
        Tier::Quick => 150,
        Tier::Thorough => 900,
    };
    let node_budget_per_position: u64 = match ctx.tier {
        Tier::Quick => 60_000_000,
        Tier::Thorough => 300_000_000,
    };
    let rep = run_batch(sims, ctx.workers, |i| {
        let seed = derive(ctx.seed, "C07", i);
        let mut rng = Rng::new(seed);
        let mut res = SimResult::default();
        let mut log_hash = FNV_INIT;
        with_bench(|bench| {
            // position: one third explosive (constructed or generated), the rest ordinary
            let want_explosive = i % 3 == 0;
            let mut single_reply = false;
            let mut deep_thinker = false;
            let (pos, is_explosive): (Pos, bool) = if i % 6 == 1 {
                // the side to move has a single legal move: every iteration's "last root move"
                // is its only one
                match gen::single_reply_position(&mut rng) {
                    Some(p) => {
                        single_reply = true;
                        (p, false)
                    }
                    None => (sample_position(&mut rng), false),
                }
            } else if i % 6 == 4 {
                // a pawn endgame (see the long-budget runs below)
                deep_thinker = true;
                (if rng.chance(1, 4) { Pos::from_fen("6k1/5ppp/8/p7/8/8/5PPP/6K1 w - - 0 1").unwrap() } else { gen::pawn_endgame_position(&mut rng) }, false)
            } else if want_explosive {
                let mut found = None;
                for _ in 0..40 {
                    let p = if rng.chance(1, 3) {
                        Pos::from_fen(*rng.pick(gen::EXPLOSIVE_FENS)).unwrap()
                    } else {
                        gen::promotion_race(&mut rng)
                    };
                    if explosive(bench, &fen_for_search(&p), 20 * B) {
                        found = Some(p);
                        break;
                    }
                }
                match found {
                    Some(p) => (p, true),
                    None => (sample_position(&mut rng), false),
                }
            } else {
                (sample_position(&mut rng), false)
            };
            let fen = fen_for_search(&pos);
            if is_explosive {
                res.probes.add("explosive_positions", 1);
            }
            if single_reply {
                res.probes.add("single_reply_positions", 1);
            }
            let key_seed = rng.next_u64();
            let mut scs: Vec<Scenario> = vec![];
            let base = Scenario {
                fen: fen.clone(),
                depth: 64,
                key_seed,
                forced: None,
                cost_node_ns: 0,
                cost_read_ns: 0,
                limit_ms: 0,
                stalls: vec![],
                via_uci: false,
                warmup_depths: vec![],
                warmup_timed: false,
                go_extra: String::new(),
                clocked: false,
            };
            // (a) forced expiry: dense over the first reads, then log-uniform up to 20 000
            let dense = per_pos / 3;
            for j in 1..=dense {
                let mut s = base.clone();
                s.forced = Some(j);
                s.depth = *rng.pick(&[1u8, 2, 64, 64]);
                scs.push(s);
            }
            for _ in 0..per_pos / 3 {
                let mut s = base.clone();
                s.forced = Some(rng.log_range(dense.max(1), if is_explosive { 200_000 } else { 20_000 }));
                s.depth = *rng.pick(&[1u8, 2, 3, 64, 64]);
                if rng.chance(1, 6) {
                    s.via_uci = true;
                    if rng.chance(1, 3) {
                        s.go_extra = rng.pick(&[" nodes 4000000000", " nodes 4000000000", " mate 40", " movestogo 30"]).to_string();
                    }
                    // a depth cap far beyond what the budget allows, next to the clock
                    if rng.chance(1, 2) {
                        s.depth = *rng.pick(&[20u8, 40, 63]);
                    } else if rng.chance(1, 2) {
                        s.clocked = true;
                        s.depth = 64;
                    }
                }
                if rng.chance(1, 4) && !is_explosive {
                    warmups(&mut rng, &pos, &mut s);
                }
                scs.push(s);
            }
            // (a') expiry shortly before the end of an iteration (the last root moves' subtrees):
            // read index of each `info` line of an uninterrupted probe, minus a log-uniform offset
            if !is_explosive {
                let marks = iteration_marks(bench, &fen, key_seed, 60_000);
                let mut prev = 0u64;
                for (k, m) in marks.iter().enumerate() {
                    let span = m.saturating_sub(prev).max(2);
                    for _ in 0..(per_pos / 12).max(2) {
                        let off = rng.log_range(1, span / 2 + 1);
                        let mut s = base.clone();
                        s.forced = Some(m.saturating_sub(off).max(1));
                        s.depth = if rng.chance(1, 2) { 64 } else { (k as u8 + 1).max(1) };
                        if rng.chance(1, 6) {
                            s.via_uci = true;
                            if rng.chance(1, 3) {
                                s.go_extra = rng.pick(&[" nodes 4000000000", " nodes 4000000000", " mate 40", " movestogo 30"]).to_string();
                            }
                    if rng.chance(1, 3) {
                        s.go_extra = rng.pick(&[" nodes 4000000000", " nodes 4000000000", " mate 40", " movestogo 30"]).to_string();
                    }
                        }
                        scs.push(s);
                        res.probes.add("expiry_points_late_in_an_iteration", 1);
                    }
                    prev = *m;
                }
            }
            // (b) cost model: the deadline falls at a node, not at a poll; with and without stalls
            for _ in 0..per_pos / 3 {
                let mut s = base.clone();
                s.cost_node_ns = rng.log_range(1_000, 5_000_000);
                s.cost_read_ns = if rng.chance(1, 2) { 0 } else { rng.log_range(1, 10_000) };
                let nodes_budget = rng.log_range(1, 30_000);
                s.limit_ms = (nodes_budget * s.cost_node_ns / 1_000_000).min(3_600_000);
                s.depth = *rng.pick(&[1u8, 2, 64, 64]);
                if rng.chance(1, 4) {
                    let at = rng.log_range(1, 5_000);
                    s.stalls.push((at, rng.log_range(1_000_000, 5_000_000_000)));
                }
                if rng.chance(1, 6) {
                    s.via_uci = true;
                    if rng.chance(1, 3) {
                        s.go_extra = rng.pick(&[" nodes 4000000000", " nodes 4000000000", " mate 40", " movestogo 30"]).to_string();
                    }
                    if rng.chance(1, 2) {
                        s.depth = *rng.pick(&[20u8, 40, 63]);
                    } else if rng.chance(1, 2) {
                        s.clocked = true;
                        s.depth = 64;
                    }
                }
                if rng.chance(1, 5) && !is_explosive {
                    warmups(&mut rng, &pos, &mut s);
                }
                scs.push(s);
            }
            // (c) long budgets in pawn endgames: the search completes many iterations before the
            // deadline (ten, fifteen plies deep), values swing between them; whatever an engine
            // does with its limit after a completed iteration shows here
            if deep_thinker {
                for _ in 0..8 {
                    let mut s = base.clone();
                    s.cost_node_ns = rng.log_range(1_000, 100_000);
                    s.cost_read_ns = if rng.chance(1, 2) { 0 } else { rng.log_range(1, 1_000) };
                    let nodes_budget = rng.log_range(30_000, 400_000);
                    s.limit_ms = (nodes_budget * s.cost_node_ns / 1_000_000).max(1);
                    s.depth = 64;
                    if rng.chance(1, 4) {
                        s.via_uci = true;
                    }
                    scs.push(s);
                    res.probes.add("long_budget_runs_in_pawn_endgames", 1);
                }
            }
            // cost cap per position, in nodes (deterministic): on this tree a position's
            // scenarios take 1-5 M nodes in total; an engine that polls rarely needs far more
            // to reach a forced expiry read, and the rest of its scenarios is then skipped
            let mut sim_nodes = 0u64;
            for sc in &scs {
                if !res.violations.is_empty() {
                    break;
                }
                if sim_nodes > node_budget_per_position {
                    res.probes.add("scenarios_skipped_by_the_node_budget_per_position", 1);
                    continue;
                }
                let o = run_scenario(bench, sc);
                sim_nodes += o.nodes;
                if is_explosive && o.faults.get("deadline_expired_mid_search") > 0 {
                    res.probes.add("expiry_in_explosive_position", 1);
                }
                res.evaluations += 1;
                res.sim_time_ns += o.sim_ns;
                log_hash = fnv1a(log_hash, &o.log_hash.to_le_bytes());
                res.probes.merge(&o.probes);
                res.faults.merge(&o.faults);
                res.probes.max("max_overshoot_nodes", o.overshoot);
                if !sc.go_extra.is_empty() {
                    res.probes.add("via_uci_runs_with_other_go_parameters", 1);
                }
                if sc.via_uci {
                    res.probes.add("via_uci_runs", 1);
                }
                if !sc.warmup_depths.is_empty() {
                    res.probes.add("runs_after_earlier_searches_on_the_same_engine", 1);
                }
                if o.faults.get("deadline_expired_mid_search") > 0 {
                    res.distinct.push(hash_str(&sc.to_json().to_string()));
                }
                for (class, detail) in &o.violations {
                    res.violations.push(Violation {
                        prop: "C07".into(),
                        class: class.clone(),
                        detail: detail.clone(),
                        scenario: o.witness.as_ref().unwrap_or(sc).to_json(),
                        sim_index: i,
                        sim_seed: seed,
                        log_hash: o.log_hash,
                    });
                }
            }
            res.probes.max("max_nodes_spent_on_one_position", sim_nodes);
            if i < 4 {
                res.sample = Some(json!({"fen": fen, "explosive": is_explosive, "scenarios": scs.len(),
                    "example": scs.last().map(|s| s.to_json())}));
            }
        });
        res.log_hash = log_hash;
        res
    });
    let ev = Evidence {
        level: "fault_enumeration",
        rule: format!("Positions: one third explosive (constructed promotion races and seeded ones, kept when a depth-1 search exceeds {} nodes), one sixth middlegame positions with a single legal move, the rest seeded playout positions. Per position: forced expiry at every read 1..N/3, log-uniform expiry reads up to 20 000, expiry reads shortly before the end of each iteration of an uninterrupted probe (the last root moves' subtrees), and cost-model runs (per-node cost 1us..5ms, budget 1..30 000 nodes, optional stall jump) in which the deadline passes at a node rather than at a poll; depths 1, 2, 3 and 64; one sixth through `go movetime T [depth D]` (both token orders, D from 1 to 63) and the real uci_loop, where the limit armed on the timer must exist and not exceed T, or `go wtime W btime W` where it must exist; in both at most 4096 nodes may be entered between the go command and the start of the timer; a quarter of the sampled runs after one or two earlier depth 2-4 searches (clock-limited or not) on the same engine. Oracle: at most {} nodes entered after the virtual clock first shows start+limit (runs are cut at {} by the step cap), plus a time bound in stall-free runs. One position in six is a pawn endgame with eight long-budget runs (30 000-400 000 nodes: ten to fifteen iterations complete before the deadline); a third of the go lines through the loop carry nodes / mate / movestogo besides the clock; a timer armed again inside the same go, before its deadline, with a later deadline or none is a violation. A case = a scenario in which the deadline passed before the search ended.", 20 * B, B, 64 * B),
        extra: {
            let mut m = serde_json::Map::new();
            m.insert("bound_B_nodes".into(), json!(B));
            m
        },
        assumptions: vec![
            "'small bounded amount of further work' is taken as <= 4096 nodes: loose enough for a poll-every-2048-nodes design, far below any subtree a missing poll would finish".into(),
            "time bound asserted only without stall jumps (an overshoot caused by the process being descheduled is not the engine's)".into(),
        ],
        exhaustive: None,
    };
    conclude(ctx, &rep, ev, &replay_value, &shrink_value)
}

pub fn replay(path: &std::path::Path) -> i32 {
    let doc: Value = read_replay(path);
    let vs = replay_value(&doc["scenario"]);
    conclude_replay("C07", &vs, doc["class"].as_str())
}
