//! Seeded workload generation over the rules model R: playouts, positions, move lists.

use crate::rng::Rng;
use crate::rules::*;

/// Picks a legal move with a bias towards "interesting" kinds (captures, castling, en
/// passant, promotions, double pushes, king/rook moves that lose rights).
pub fn pick_move(rng: &mut Rng, pos: &Pos, bias: u32) -> Option<RMove> {
    let ms = pos.legal_moves();
    if ms.is_empty() {
        return None;
    }
    if bias == 0 {
        return Some(*rng.pick(&ms));
    }
    let mut weighted: Vec<(u32, RMove)> = Vec::with_capacity(ms.len());
    for m in ms {
        let p = kind(pos.sq[m.from as usize]);
        let mut w = 4;
        if m.flags & F_EP != 0 {
            w += 40 * bias;
        }
        if m.flags & F_CASTLE != 0 {
            w += 30 * bias;
        }
        if m.promo != 0 {
            w += 12 * bias;
        }
        if m.flags & F_CAPTURE != 0 {
            w += 3 * bias;
            if kind(pos.sq[m.to as usize]) == ROOK && [0u8, 7, 56, 63].contains(&m.to) {
                w += 20 * bias;
            }
        }
        if m.flags & F_DOUBLE != 0 {
            w += 3 * bias;
        }
        if p == PAWN {
            w += 2 * bias;
        }
        weighted.push((w, m));
    }
    let total: u64 = weighted.iter().map(|(w, _)| *w as u64).sum();
    let mut t = rng.below(total);
    for (w, m) in &weighted {
        if t < *w as u64 {
            return Some(*m);
        }
        t -= *w as u64;
    }
    Some(weighted.last().unwrap().1)
}

/// A seeded legal game from `start`: returns the moves and every position (len+1).
pub fn playout(rng: &mut Rng, start: &Pos, max_plies: usize, bias: u32) -> (Vec<RMove>, Vec<Pos>) {
    let mut pos = start.clone();
    let mut moves = vec![];
    let mut positions = vec![pos.clone()];
    for _ in 0..max_plies {
        match pick_move(rng, &pos, bias) {
            Some(m) => {
                pos = pos.make(&m);
                moves.push(m);
                positions.push(pos.clone());
            }
            None => break,
        }
    }
    (moves, positions)
}

/// Constructed edge positions: mates, stalemates, only-move, in check, promotion races,
/// castling and en-passant opportunities.
pub const EDGE_FENS: &[&str] = &[
    // checkmated / stalemated side to move
    "7k/5Q2/6K1/8/8/8/8/8 b - - 0 1",
    "R5k1/5ppp/8/8/8/8/8/6K1 b - - 0 1",
    "7k/5K2/6Q1/8/8/8/8/8 b - - 0 1",
    "k7/2Q5/1K6/8/8/8/8/8 b - - 0 1",
    "rnb1kbnr/pppp1ppp/8/4p3/6Pq/5P2/PPPPP2P/RNBQKBNR w KQkq - 1 3",
    "8/8/8/8/8/5k2/5p2/5K2 w - - 0 1",
    // only one legal move / in check
    "7k/8/8/8/8/8/r7/1r5K w - - 0 1",
    "4k3/8/8/8/8/8/4r3/4K3 w - - 0 1",
    "r3k2r/8/8/8/8/8/8/R3K2R w KQkq - 0 1",
    "r3k2r/pppppppp/8/8/8/8/PPPPPPPP/R3K2R b KQkq - 0 1",
    // en passant available
    "rnbqkbnr/ppp1pppp/8/8/3pP3/8/PPPP1PPP/RNBQKBNR b KQkq e3 0 2",
    "4k3/8/8/3pP3/8/8/8/4K3 w - d6 0 1",
    "8/8/8/8/k2Pp2Q/8/8/3K4 b - d3 0 1",
    // promotions
    "4k3/P7/8/8/8/8/7p/4K3 w - - 0 1",
    "r3k3/1P6/8/8/8/8/6p1/4K2R w Kq - 0 1",
    "n1n5/PPPk4/8/8/8/8/4Kppp/5N1N b - - 0 1",
    // mates in one available
    "4k3/5p2/8/6B1/8/8/8/3R2K1 w - - 0 1",
    "6k1/6P1/5K1R/8/8/8/8/8 w - - 0 1",
    // tactical middlegames
    "r3k2r/p1ppqpb1/bn2pnp1/3PN3/1p2P3/2N2Q1p/PPPBBPPP/R3K2R w KQkq - 0 1",
    "r4rk1/1pp1qppp/p1np1n2/2b1p1B1/2B1P1b1/P1NP1N2/1PP1QPPP/R4RK1 w - - 0 10",
    "rnbq1k1r/pp1Pbppp/2p5/8/2B5/8/PPP1NnPP/RNBQK2R w KQ - 1 8",
    "8/2p5/3p4/KP5r/1R3p1k/8/4P1P1/8 w - - 0 1",
];

/// Positions whose quiescence search explodes (many pawns one step from promotion).
pub const EXPLOSIVE_FENS: &[&str] = &[
    "k7/2P1P1P1/8/8/8/8/1p1p1p2/7K w - - 0 1",
    "k7/2P1P1P1/8/8/8/8/1p1p1p2/7K b - - 0 1",
    "kn4n1/2P1P1PP/8/8/8/8/pp1p1p2/1N4NK w - - 0 1",
    "k7/2P1P1P1/8/3q4/4Q3/8/1p1p1p2/7K w - - 0 1",
    "k7/2P1P1P1/8/3q4/4Q3/8/1p1p1p2/7K b - - 0 1",
    "k2r1r2/2P1P1P1/8/8/8/8/1p1p1p2/2R1R2K w - - 0 1",
];

/// A random valid position: playout from the start position or from an edge FEN.
pub fn random_position(rng: &mut Rng) -> Pos {
    let start = if rng.chance(1, 4) {
        Pos::from_fen(*rng.pick(EDGE_FENS)).unwrap()
    } else {
        Pos::startpos()
    };
    let plies = match rng.below(4) {
        0 => rng.usize_below(6),
        1 => rng.usize_below(30),
        2 => rng.usize_below(80),
        _ => rng.usize_below(160),
    };
    let bias = rng.below(3) as u32;
    let (_, ps) = playout(rng, &start, plies, bias);
    ps.last().unwrap().clone()
}

pub fn moves_uci(ms: &[RMove]) -> Vec<String> {
    ms.iter().map(|m| m.uci()).collect()
}

/// A sparse (low-branching) valid position: two kings and 1-5 other men.
pub fn sparse_position(rng: &mut Rng) -> Pos {
    loop {
        let mut p = Pos {
            sq: [EMPTY; 64],
            white_to_move: rng.chance(1, 2),
            castle: [false; 4],
            ep: None,
            halfmove: 0,
            fullmove: 40,
        };
        let mut free: Vec<u8> = (0..64).collect();
        rng.shuffle(&mut free);
        p.sq[free.pop().unwrap() as usize] = KING;
        p.sq[free.pop().unwrap() as usize] = KING | BLACK;
        let n = rng.range(1, 5);
        for _ in 0..n {
            let k = *rng.pick(&[PAWN, PAWN, PAWN, KNIGHT, BISHOP, ROOK, QUEEN]);
            let c = if rng.chance(1, 2) { 0 } else { BLACK };
            let s = free.pop().unwrap();
            if k == PAWN && (rank_of(s) == 0 || rank_of(s) == 7) {
                continue;
            }
            p.sq[s as usize] = k | c;
        }
        if p.is_valid() && !p.legal_moves().is_empty() {
            return p;
        }
    }
}

/// A promotion-race position (pawns one step from promotion on both sides), the kind
/// whose quiescence search explodes.
pub fn promotion_race(rng: &mut Rng) -> Pos {
    loop {
        let mut p = Pos {
            sq: [EMPTY; 64],
            white_to_move: rng.chance(1, 2),
            castle: [false; 4],
            ep: None,
            halfmove: 0,
            fullmove: 50,
        };
        let wk = sq(rng.below(8) as i8, rng.below(3) as i8);
        let bk = sq(rng.below(8) as i8, 5 + rng.below(3) as i8);
        p.sq[wk as usize] = KING;
        p.sq[bk as usize] = KING | BLACK;
        let nw = rng.range(2, 5);
        let nb = rng.range(2, 5);
        for _ in 0..nw {
            let s = sq(rng.below(8) as i8, 6);
            if p.sq[s as usize] == EMPTY {
                p.sq[s as usize] = PAWN;
            }
        }
        for _ in 0..nb {
            let s = sq(rng.below(8) as i8, 1);
            if p.sq[s as usize] == EMPTY {
                p.sq[s as usize] = PAWN | BLACK;
            }
        }
        for _ in 0..rng.below(4) {
            let s = rng.below(64) as u8;
            if p.sq[s as usize] == EMPTY {
                let k = *rng.pick(&[KNIGHT, BISHOP, ROOK, QUEEN]);
                p.sq[s as usize] = k | if rng.chance(1, 2) { 0 } else { BLACK };
            }
        }
        if p.is_valid() && !p.legal_moves().is_empty() {
            return p;
        }
    }
}

/// A sparse position with pawns close to promotion (6th/7th rank for white, 3rd/2nd for
/// black) and a few pieces: promotions and under-promotions sit just below the horizon.
pub fn advanced_pawn_position(rng: &mut Rng) -> Pos {
    loop {
        let mut p = Pos {
            sq: [EMPTY; 64],
            white_to_move: rng.chance(1, 2),
            castle: [false; 4],
            ep: None,
            halfmove: 0,
            fullmove: 45,
        };
        let mut free: Vec<u8> = (0..64).collect();
        rng.shuffle(&mut free);
        p.sq[free.pop().unwrap() as usize] = KING;
        p.sq[free.pop().unwrap() as usize] = KING | BLACK;
        for _ in 0..rng.range(1, 3) {
            let white = rng.chance(1, 2);
            let r = if white { 5 + rng.below(2) as i8 } else { 2 - rng.below(2) as i8 };
            let s = sq(rng.below(8) as i8, r);
            if p.sq[s as usize] == EMPTY {
                p.sq[s as usize] = if white { PAWN } else { PAWN | BLACK };
            }
        }
        for _ in 0..rng.range(0, 4) {
            let s = rng.below(64) as u8;
            if p.sq[s as usize] == EMPTY {
                let k = *rng.pick(&[PAWN, KNIGHT, BISHOP, ROOK, QUEEN]);
                if k == PAWN && (rank_of(s) == 0 || rank_of(s) == 7) {
                    continue;
                }
                p.sq[s as usize] = k | if rng.chance(1, 2) { 0 } else { BLACK };
            }
        }
        if p.is_valid() && !p.legal_moves().is_empty() {
            return p;
        }
    }
}

/// A middlegame position in which the side to move has exactly one legal move (found by
/// seeded playouts; None if none turned up within the budget).
pub fn single_reply_position(rng: &mut Rng) -> Option<Pos> {
    for _ in 0..60 {
        let plies = 40 + rng.usize_below(100);
        let (_, ps) = playout(rng, &Pos::startpos(), plies, 1);
        let cands: Vec<&Pos> = ps.iter().filter(|p| p.piece_count() >= 8 && p.legal_moves().len() == 1).collect();
        if !cands.is_empty() {
            return Some((*rng.pick(&cands)).clone());
        }
    }
    None
}

/// A pawn one step from promotion with both kings close to the promotion square (the
/// geometry of stalemate tricks and mating under-promotions), optionally one more man:
/// positions in which WHICH piece to promote to decides the value.
pub fn promotion_choice_position(rng: &mut Rng) -> Pos {
    loop {
        let mut p = Pos {
            sq: [EMPTY; 64],
            white_to_move: true,
            castle: [false; 4],
            ep: None,
            halfmove: 0,
            fullmove: 60,
        };
        let f = rng.below(8) as i8;
        let pawn = sq(f, 6);
        p.sq[pawn as usize] = PAWN;
        let near = |rng: &mut Rng, cf: i8, cr: i8, d: i8| -> Option<u8> {
            let nf = cf + rng.range(0, 2 * d as u64) as i8 - d;
            let nr = cr + rng.range(0, 2 * d as u64) as i8 - d;
            if (0..8).contains(&nf) && (0..8).contains(&nr) {
                Some(sq(nf, nr))
            } else {
                None
            }
        };
        let Some(bk) = near(rng, f, 7, 2) else { continue };
        let Some(wk) = near(rng, f, 5, 2) else { continue };
        if p.sq[bk as usize] != EMPTY || p.sq[wk as usize] != EMPTY || bk == wk {
            continue;
        }
        p.sq[bk as usize] = KING | BLACK;
        p.sq[wk as usize] = KING;
        for _ in 0..rng.below(3) {
            let s = rng.below(64) as u8;
            if p.sq[s as usize] == EMPTY {
                let k = *rng.pick(&[PAWN, KNIGHT, BISHOP, ROOK, QUEEN]);
                if k == PAWN && (rank_of(s) == 0 || rank_of(s) == 7) {
                    continue;
                }
                p.sq[s as usize] = k | if rng.chance(1, 2) { 0 } else { BLACK };
            }
        }
        // mirrored for Black half of the time
        if rng.chance(1, 2) {
            let mut q = p.clone();
            for s in 0..64u8 {
                let t = sq(file_of(s), 7 - rank_of(s));
                let pc = p.sq[s as usize];
                q.sq[t as usize] = if pc == EMPTY { EMPTY } else { pc ^ BLACK };
            }
            q.white_to_move = false;
            p = q;
        }
        // sometimes the defender is to move (the promotion sits one ply below the root)
        if rng.chance(1, 3) {
            p.white_to_move = !p.white_to_move;
        }
        // sometimes the fifty-move counter stands just below its limit: a promotion is a
        // pawn move and restarts it
        if rng.chance(1, 4) {
            p.halfmove = rng.range(96, 99) as u32;
        }
        if p.is_valid() && !p.legal_moves().is_empty() {
            return p;
        }
    }
}

/// A position lost by force inside a two-ply horizon: the side to move has at least two
/// legal moves and every one of them allows mate in one. (Lone king, sometimes with a pawn
/// or a knight, against king and two or three heavy pieces.)
pub fn lost_by_force_position(rng: &mut Rng) -> Option<Pos> {
    for _ in 0..400 {
        let mut p = Pos {
            sq: [EMPTY; 64],
            white_to_move: rng.chance(1, 2),
            castle: [false; 4],
            ep: None,
            halfmove: 0,
            fullmove: 70,
        };
        let (me, them) = if p.white_to_move { (0, BLACK) } else { (BLACK, 0) };
        let mut free: Vec<u8> = (0..64).collect();
        rng.shuffle(&mut free);
        // the defending king likes the edge
        let dk = if rng.chance(2, 3) {
            let e = *rng.pick(&[0i8, 7]);
            if rng.chance(1, 2) { sq(rng.below(8) as i8, e) } else { sq(e, rng.below(8) as i8) }
        } else {
            free[0]
        };
        free.retain(|s| *s != dk);
        p.sq[dk as usize] = KING | me;
        p.sq[free.pop().unwrap() as usize] = KING | them;
        for _ in 0..rng.range(2, 3) {
            p.sq[free.pop().unwrap() as usize] = *rng.pick(&[QUEEN, QUEEN, ROOK]) | them;
        }
        if rng.chance(1, 3) {
            let s = free.pop().unwrap();
            let k = *rng.pick(&[PAWN, KNIGHT]);
            if !(k == PAWN && (rank_of(s) == 0 || rank_of(s) == 7)) {
                p.sq[s as usize] = k | me;
            }
        }
        if !p.is_valid() {
            continue;
        }
        let ms = p.legal_moves();
        if ms.len() < 2 {
            continue;
        }
        let lost = ms.iter().all(|m| {
            let q = p.make(m);
            q.legal_moves().iter().any(|r| {
                let z = q.make(r);
                z.in_check() && z.legal_moves().is_empty()
            })
        });
        if lost {
            return Some(p);
        }
    }
    None
}

/// More than 128 legal moves in one position: five to eight queens (and a few other men)
/// against a king that is not in check. Valid, absurd, and larger than any fixed-size move
/// buffer someone may have thought generous.
pub fn many_queens_position(rng: &mut Rng) -> Pos {
    loop {
        let mut p = Pos {
            sq: [EMPTY; 64],
            white_to_move: true,
            castle: [false; 4],
            ep: None,
            halfmove: 0,
            fullmove: 90,
        };
        let white = rng.chance(1, 2);
        let (me, them) = if white { (0, BLACK) } else { (BLACK, 0) };
        p.white_to_move = white;
        let mut free: Vec<u8> = (0..64).collect();
        rng.shuffle(&mut free);
        if rng.chance(1, 2) {
            // the lone king sheltered in a corner behind pawns with a piece beside it: no
            // immediate mate, so that WHICH of the many moves is best decides the value
            let (kf, kr): (i8, i8) = (*rng.pick(&[0i8, 7]), if white { 7 } else { 0 });
            let dr: i8 = if white { -1 } else { 1 };
            let df: i8 = if kf == 0 { 1 } else { -1 };
            let ksq = sq(kf, kr);
            p.sq[ksq as usize] = KING | them;
            for f in [kf, kf + df, kf + 2 * df] {
                p.sq[sq(f, kr + dr) as usize] = PAWN | them;
            }
            p.sq[sq(kf + df, kr) as usize] = *rng.pick(&[BISHOP, KNIGHT, ROOK]) | them;
            free.retain(|s| p.sq[*s as usize] == EMPTY);
        } else {
            p.sq[free.pop().unwrap() as usize] = KING | them;
        }
        p.sq[free.pop().unwrap() as usize] = KING | me;
        for _ in 0..rng.range(5, 8) {
            p.sq[free.pop().unwrap() as usize] = QUEEN | me;
        }
        for _ in 0..rng.below(4) {
            let s = free.pop().unwrap();
            let k = *rng.pick(&[PAWN, KNIGHT, BISHOP, ROOK]);
            if k == PAWN && (rank_of(s) == 0 || rank_of(s) == 7) {
                continue;
            }
            p.sq[s as usize] = k | if rng.chance(1, 2) { me } else { them };
        }
        if p.is_valid() && p.legal_moves().len() > 128 {
            return p;
        }
    }
}

/// A promotion-choice position in which promoting to a queen stalemates the defender while
/// another piece does not (found with the rules model among `promotion_choice_position`s);
/// None within the try budget.
pub fn stalemate_trick_position(rng: &mut Rng) -> Option<Pos> {
    for _ in 0..400 {
        let mut p = promotion_choice_position(rng);
        p.halfmove = 0;
        // look at the position with the pawn's side to move
        let mover_has_pawn_on_7th = |q: &Pos| q.legal_moves().iter().any(|m| m.promo != 0);
        let probe = if mover_has_pawn_on_7th(&p) {
            p.clone()
        } else {
            continue;
        };
        let trick = probe.legal_moves().iter().filter(|m| m.promo == QUEEN).any(|m| {
            let after = probe.make(m);
            !after.in_check() && after.legal_moves().is_empty()
        });
        if trick {
            return Some(p);
        }
    }
    None
}

/// A position from a seeded game in which an en-passant capture is legal right now.
pub fn ep_capture_position(rng: &mut Rng) -> Option<Pos> {
    for _ in 0..30 {
        let plies = 6 + rng.usize_below(60);
        let (_, ps) = playout(rng, &Pos::startpos(), plies, 2);
        let c: Vec<&Pos> = ps.iter().filter(|p| p.legal_moves().iter().any(|m| m.flags & F_EP != 0)).collect();
        if !c.is_empty() {
            return Some((*rng.pick(&c)).clone());
        }
    }
    None
}

/// Extends a game by piece shuffles (a reversible piece move and its way back, for both
/// sides) until it has `target` plies or no such move exists. Returns the moves added and
/// the final position (equal to `start` when whole cycles were added).
pub fn shuffle_history(start: &Pos, target: usize) -> (Vec<RMove>, Pos) {
    let mut pos = start.clone();
    let mut ms: Vec<RMove> = vec![];
    while ms.len() < target {
        let rev = |p: &Pos| -> Option<RMove> { p.legal_moves().into_iter().find(|m| m.flags == 0 && m.promo == 0 && kind(p.sq[m.from as usize]) != PAWN && kind(p.sq[m.from as usize]) != KING) };
        let Some(a) = rev(&pos) else { break };
        let p1 = pos.make(&a);
        let Some(b) = rev(&p1) else { break };
        let p2 = p1.make(&b);
        let (a2, b2) = (RMove { from: a.to, to: a.from, promo: 0, flags: 0 }, RMove { from: b.to, to: b.from, promo: 0, flags: 0 });
        let Some(a2) = p2.find_uci(&a2.uci()) else { break };
        let p3 = p2.make(&a2);
        let Some(b2) = p3.find_uci(&b2.uci()) else { break };
        pos = p3.make(&b2);
        ms.extend([a, b, a2, b2]);
    }
    (ms, pos)
}

/// A pair of look-alike positions for one session: `with` has a castling right (castling is
/// legal now) or an ep square (the capture is legal now) that `without` lacks; `needs` is the
/// move that exists only because of it. Same placement, same side to move.
pub fn rights_twin(rng: &mut Rng) -> Option<(Pos, Pos, RMove)> {
    if rng.chance(1, 2) {
        let with = ep_capture_position(rng)?;
        let needs = with.legal_moves().into_iter().find(|m| m.flags & F_EP != 0)?;
        let mut without = with.clone();
        without.ep = None;
        if without.is_valid() {
            return Some((without, with, needs));
        }
        return None;
    }
    for _ in 0..20 {
        let plies = 8 + rng.usize_below(40);
        let (_, ps) = playout(rng, &Pos::startpos(), plies, 2);
        let c: Vec<&Pos> = ps.iter().filter(|p| p.legal_moves().iter().any(|m| m.flags & F_CASTLE != 0)).collect();
        if c.is_empty() {
            continue;
        }
        let with = (*rng.pick(&c)).clone();
        let cs: Vec<RMove> = with.legal_moves().into_iter().filter(|m| m.flags & F_CASTLE != 0).collect();
        let needs = rng.pick(&cs).clone();
        let mut without = with.clone();
        if rng.chance(1, 2) {
            without.castle = [false; 4];
        } else {
            // only the right that the move needs
            let king_side = file_of(needs.to) == 6;
            let i = if with.white_to_move { 0 } else { 2 } + if king_side { 0 } else { 1 };
            without.castle[i] = false;
        }
        if without.is_valid() {
            return Some((without, with, needs));
        }
    }
    None
}

/// A position in which the side to move can capture an unmoved enemy rook on its home corner
/// WITH THE KING while the opponent still holds the castling right of that wing (and, usually,
/// of the other wing too); returns the position and the capturing move.
pub fn king_takes_corner_rook(rng: &mut Rng) -> Option<(Pos, RMove)> {
    for _ in 0..50 {
        let white_captures = rng.chance(1, 2);
        // the victim's side: king and rooks on their home squares
        let (vk, vr_a, vr_h, home_rank, pawn_dir): (u8, u8, u8, i8, i8) = if white_captures { (sq(4, 7), sq(0, 7), sq(7, 7), 7, -1) } else { (sq(4, 0), sq(0, 0), sq(7, 0), 0, 1) };
        let vc = if white_captures { BLACK } else { 0 };
        let ac = if white_captures { 0 } else { BLACK };
        let mut p = Pos { sq: [EMPTY; 64], white_to_move: white_captures, castle: [false; 4], ep: None, halfmove: rng.range(0, 30) as u32, fullmove: rng.range(20, 90) as u32 };
        p.sq[vk as usize] = KING | vc;
        let king_side = rng.chance(1, 2);
        let both = rng.chance(2, 3);
        let ci = if white_captures { 2 } else { 0 };
        if king_side || both {
            p.sq[vr_h as usize] = ROOK | vc;
            p.castle[ci] = true;
        }
        if !king_side || both {
            p.sq[vr_a as usize] = ROOK | vc;
            p.castle[ci + 1] = true;
        }
        // the capturing king diagonally in front of the corner (g7/b7 resp. g2/b2)
        let kf = if king_side { 6 } else { 1 };
        let ks = sq(kf, home_rank + pawn_dir);
        p.sq[ks as usize] = KING | ac;
        // a few other men anywhere, kept if the position stays valid
        for _ in 0..rng.range(0, 6) {
            let s = rng.below(64) as u8;
            if p.sq[s as usize] != EMPTY {
                continue;
            }
            let k = *rng.pick(&[PAWN, PAWN, PAWN, KNIGHT, BISHOP, ROOK]);
            if k == PAWN && (rank_of(s) == 0 || rank_of(s) == 7) {
                continue;
            }
            let c = if rng.chance(1, 2) { 0 } else { BLACK };
            let old = p.clone();
            p.sq[s as usize] = k | c;
            if !p.is_valid() {
                p = old;
            }
        }
        if !p.is_valid() {
            continue;
        }
        let corner = if king_side { vr_h } else { vr_a };
        if let Some(m) = p.legal_moves().into_iter().find(|m| m.from == ks && m.to == corner) {
            return Some((p, m));
        }
    }
    None
}

/// Kings, a phalanx of three to five pawns of one colour on adjacent files far up the board
/// (5th/6th rank for white, 4th/3rd for black), and a few other men: positions whose static
/// evaluation is far from the bare material count.
pub fn pawn_phalanx_position(rng: &mut Rng) -> Pos {
    loop {
        let mut p = Pos { sq: [EMPTY; 64], white_to_move: rng.chance(1, 2), castle: [false; 4], ep: None, halfmove: 0, fullmove: 50 };
        let white = rng.chance(1, 2);
        let n = rng.range(3, 5) as i8;
        let f0 = rng.below((9 - n) as u64) as i8;
        for f in f0..f0 + n {
            let r = if white { 4 + rng.below(2) as i8 } else { 3 - rng.below(2) as i8 };
            p.sq[sq(f, r) as usize] = if white { PAWN } else { PAWN | BLACK };
        }
        let mut free: Vec<u8> = (0..64).filter(|s| p.sq[*s as usize] == EMPTY).collect();
        rng.shuffle(&mut free);
        p.sq[free.pop().unwrap() as usize] = KING;
        p.sq[free.pop().unwrap() as usize] = KING | BLACK;
        for _ in 0..rng.range(0, 3) {
            let s = free.pop().unwrap();
            let k = *rng.pick(&[PAWN, KNIGHT, BISHOP, ROOK]);
            if k == PAWN && (rank_of(s) == 0 || rank_of(s) == 7) {
                continue;
            }
            p.sq[s as usize] = k | if rng.chance(1, 2) { 0 } else { BLACK };
        }
        if p.is_valid() && !p.legal_moves().is_empty() {
            return p;
        }
    }
}

/// A position (from seeded games) in which some move mates although the piece that moves does
/// not itself give the check: a discovered (or double) check. None if none turned up.
pub fn discovered_mate_position(rng: &mut Rng) -> Option<Pos> {
    for _ in 0..40 {
        let plies = 20 + rng.usize_below(80);
        let (_, ps) = playout(rng, &Pos::startpos(), plies, 2);
        for p in ps.iter().rev() {
            for m in p.legal_moves() {
                if m.flags & F_CASTLE != 0 {
                    continue;
                }
                let after = p.make(&m);
                if !after.in_check() || !after.legal_moves().is_empty() {
                    continue;
                }
                // still check with the moved piece taken off the board?
                let mut without = after.clone();
                without.sq[m.to as usize] = EMPTY;
                if without.in_check() {
                    return Some(p.clone());
                }
            }
        }
    }
    None
}

/// Kings and two to four pawns a side, none further than the sixth rank: a search gets deep
/// quickly, and the value of a pawn race often changes by hundreds of centipawns from one
/// iteration to the next.
pub fn pawn_endgame_position(rng: &mut Rng) -> Pos {
    loop {
        let mut p = Pos { sq: [EMPTY; 64], white_to_move: rng.chance(1, 2), castle: [false; 4], ep: None, halfmove: 0, fullmove: 40 };
        for c in [0u8, BLACK] {
            for _ in 0..rng.range(2, 4) {
                let f = rng.below(8) as i8;
                let r = if c == 0 { 1 + rng.below(4) as i8 } else { 6 - rng.below(4) as i8 };
                let s = sq(f, r);
                if p.sq[s as usize] == EMPTY {
                    p.sq[s as usize] = PAWN | c;
                }
            }
        }
        let mut free: Vec<u8> = (0..64).filter(|s| p.sq[*s as usize] == EMPTY).collect();
        rng.shuffle(&mut free);
        p.sq[free.pop().unwrap() as usize] = KING;
        p.sq[free.pop().unwrap() as usize] = KING | BLACK;
        if p.is_valid() && !p.legal_moves().is_empty() {
            return p;
        }
    }
}
