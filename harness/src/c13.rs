//! C13 — same commands give the same answers; ucinewgame forgets everything.
//! World U, loop-driven twin runs: (1) one script under several key seeds (randomness
//! seam) must give byte-identical transcripts; (2) `prefix; ucinewgame; suffix` must
//! answer the suffix exactly like a fresh process does; (3) sampled scripts are run
//! twice on the real binary (two real key draws).

use crate::common::*;
use crate::gen;
use crate::realbin;
use crate::rng::{derive, fnv1a, Rng, FNV_INIT};
use crate::rules::*;
use crate::simworld::*;
use crate::usession::*;
use serde_json::{json, Value};

#[derive(Clone, Debug)]
pub struct Scenario {
    pub prefix: Vec<String>,
    pub suffix: Vec<String>,
    pub key_seeds: Vec<u64>,
    /// forced expiry (search ordinal, read) for clock-limited searches of the prefix
    pub forced: Vec<(u64, u64)>,
    /// also run the suffix twice on the real binary (two real key draws) and compare
    pub real_binary: bool,
    /// step cap per search (0 = the default of 4 million nodes)
    pub node_cap: u64,
}

impl Scenario {
    pub fn to_json(&self) -> Value {
        json!({"prefix": self.prefix, "suffix": self.suffix, "key_seeds": self.key_seeds,
            "forced": self.forced.iter().map(|(a, b)| json!([a, b])).collect::<Vec<_>>(), "real_binary": self.real_binary, "node_cap": self.node_cap})
    }
    pub fn from_json(v: &Value) -> Option<Scenario> {
        let strs = |x: &Value| -> Vec<String> { x.as_array().map(|a| a.iter().map(|s| s.as_str().unwrap_or("").to_string()).collect()).unwrap_or_default() };
        Some(Scenario {
            prefix: strs(&v["prefix"]),
            suffix: strs(&v["suffix"]),
            key_seeds: v["key_seeds"].as_array()?.iter().filter_map(|x| x.as_u64()).collect(),
            forced: v["forced"].as_array().map(|a| a.iter().filter_map(|p| Some((p[0].as_u64()?, p[1].as_u64()?))).collect()).unwrap_or_default(),
            real_binary: v["real_binary"].as_bool().unwrap_or(false),
            node_cap: v["node_cap"].as_u64().unwrap_or(0),
        })
    }
}

fn sim_state(key_seed: u64, forced: &[(u64, u64)], node_cap: u64) -> SimState {
    let mut st = SimState::new(key_seed, 0);
    st.clock.forced_expiry = forced.to_vec();
    st.max_nodes_per_search = if node_cap == 0 { 4_000_000 } else { node_cap };
    // key seed deliberately not logged: the event logs of the twin runs are compared
    st.ev("cfg c13");
    st
}

fn transcript_of(x: &[Exchange]) -> Vec<String> {
    let mut t = vec![];
    for e in x {
        t.push(format!("> {}", e.line));
        for l in &e.output {
            t.push(realbin::strip_time_fields(l));
        }
    }
    t
}

fn first_diff(a: &[String], b: &[String]) -> String {
    for i in 0..a.len().max(b.len()) {
        if a.get(i) != b.get(i) {
            return format!("line {}: {:?} vs {:?}", i, a.get(i), b.get(i));
        }
    }
    "no difference".into()
}

pub struct Judged {
    pub violations: Vec<(String, String)>,
    pub probes: Counters,
    pub log_hash: u64,
    pub evaluations: u64,
    pub real_script: Vec<String>,
    pub sim_suffix_transcript: Vec<String>,
}

pub fn run_scenario(sc: &Scenario) -> Judged {
    let mut j = Judged {
        violations: vec![],
        probes: Counters::default(),
        log_hash: FNV_INIT,
        evaluations: 0,
        real_script: vec![],
        sim_suffix_transcript: vec![],
    };
    let mut full = sc.prefix.clone();
    let has_prefix = !sc.prefix.is_empty();
    if has_prefix {
        full.push("ucinewgame".into());
    }
    let marker = full.len();
    full.extend(sc.suffix.iter().cloned());
    full.push("quit".into());
    let prefix_clocked = sc.prefix.iter().any(|l| l.starts_with("go") && !l.starts_with("go depth"));
    let mut reference: Option<(Vec<String>, Vec<String>)> = None; // (whole, suffix part)
    for (k, ks) in sc.key_seeds.iter().enumerate() {
        let rep = run_script(sim_state(*ks, &sc.forced, sc.node_cap), full.clone());
        j.evaluations += 1;
        {
            let st = rep.st.borrow();
            j.log_hash = fnv1a(j.log_hash, &st.log_hash.to_le_bytes());
            if k == 0 {
                let first_suffix_search = rep.exchanges[marker.min(rep.exchanges.len())..].iter().filter_map(|e| e.search_ordinal).next();
                if let Some(f) = first_suffix_search {
                    j.probes.add("suffix_nodes_total", st.searches[f..].iter().map(|s| s.nodes).sum::<u64>());
                }
                if has_prefix {
                    j.probes.add("prefix_nodes_total", st.searches[..first_suffix_search.unwrap_or(st.searches.len())].iter().map(|s| s.nodes).sum::<u64>());
                }
                j.probes.add("prefix_contained_interrupted_search", st.searches.iter().any(|s| s.first_expired_read.is_some()) as u64);
                if sc.suffix.iter().any(|l| l.len() >= 1024) {
                    j.probes.add("suffix_with_a_position_line_of_1_kib_or_more", 1);
                }
                j.probes.max("max_distinct_positions_cached_by_one_process", st.tt_new_keys);
            }
        }
        match &rep.outcome {
            Outcome::Exit(0) | Outcome::Returned => {}
            Outcome::Aborted(Abort::NodeCap) => {
                j.probes.add("inconclusive_step_cap", 1);
                return j;
            }
            o => {
                j.violations.push(("crash".into(), format!("{:?} (key seed #{})", o, k)));
                return j;
            }
        }
        let whole = transcript_of(&rep.exchanges);
        let suf = transcript_of(&rep.exchanges[marker.min(rep.exchanges.len())..]);
        match &reference {
            None => reference = Some((whole, suf)),
            Some((w0, s0)) => {
                if !prefix_clocked && &whole != w0 {
                    j.violations.push((
                        "output_depends_on_hash_keys".into(),
                        format!("same script, key sets #0 and #{}: {}", k, first_diff(w0, &whole)),
                    ));
                    break;
                }
                if &suf != s0 {
                    j.violations.push((
                        "output_depends_on_hash_keys".into(),
                        format!("same script, key sets #0 and #{} (part after ucinewgame): {}", k, first_diff(s0, &suf)),
                    ));
                    break;
                }
            }
        }
    }
    let Some((w0, suf0)) = reference else { return j };
    j.sim_suffix_transcript = suf0.clone();
    // the same script under the first key set on a machine a million times slower (1 ms of
    // virtual time per node, 2 ms per clock read): depth-limited output must not notice
    // (not for the giant scenarios: they are there for the comparison with the fresh process)
    if j.violations.is_empty() && !sc.key_seeds.is_empty() && sc.suffix.iter().filter(|l| l.starts_with("go")).count() <= 8 {
        let mut st = sim_state(sc.key_seeds[0], &sc.forced, sc.node_cap);
        st.clock.cost_node_ns = 1_000_000;
        st.clock.cost_read_ns = 2_000_000;
        st.ev("cfg slow clock");
        let rep = run_script(st, full.clone());
        j.evaluations += 1;
        j.log_hash = fnv1a(j.log_hash, &rep.st.borrow().log_hash.to_le_bytes());
        j.probes.add("slow_clock_twin_runs", 1);
        if matches!(rep.outcome, Outcome::Exit(0) | Outcome::Returned) {
            let whole = transcript_of(&rep.exchanges);
            let suf = transcript_of(&rep.exchanges[marker.min(rep.exchanges.len())..]);
            let differs = if prefix_clocked { suf != suf0 } else { whole != w0 };
            if differs {
                j.violations.push((
                    "output_depends_on_the_clock".into(),
                    format!("same script, same keys, clock 1 ms per node instead of 0: {}", if prefix_clocked { first_diff(&suf0, &suf) } else { first_diff(&w0, &whole) }),
                ));
            }
        }
    }
    if has_prefix && j.violations.is_empty() {
        // fresh process, suffix only
        let mut alone = sc.suffix.clone();
        alone.push("quit".into());
        let ks = sc.key_seeds.first().copied().unwrap_or(0) ^ 0x1234_5678_9abc_def0;
        let rep = run_script(sim_state(ks, &[], sc.node_cap), alone);
        j.evaluations += 1;
        j.log_hash = fnv1a(j.log_hash, &rep.st.borrow().log_hash.to_le_bytes());
        j.probes.add("restart_comparisons", 1);
        match &rep.outcome {
            Outcome::Exit(0) | Outcome::Returned => {
                let fresh = transcript_of(&rep.exchanges);
                if fresh != suf0 {
                    j.violations.push((
                        "ucinewgame_differs_from_fresh_process".into(),
                        format!("after the prefix and ucinewgame vs a fresh process: {}", first_diff(&suf0, &fresh)),
                    ));
                }
            }
            Outcome::Aborted(Abort::NodeCap) => j.probes.add("inconclusive_step_cap", 1),
            o => j.violations.push(("crash".into(), format!("fresh process: {:?}", o))),
        }
    }
    j.real_script = {
        let mut s = sc.suffix.clone();
        s.push("quit".into());
        s
    };
    // (3) real binary twice: two real key draws, real hasher states
    // (also when the simulation alone already disagrees with itself: if that comes from state
    // the engine keeps outside the simulated process, only this comparison replays)
    if sc.real_binary {
        if let Some(bin) = realbin::real_binary_path() {
            let input: Vec<u8> = j.real_script.iter().flat_map(|l| format!("{}\n", l).into_bytes()).collect();
            let a = realbin::run_real(&bin, &input, std::time::Duration::from_secs(300));
            let b = realbin::run_real(&bin, &input, std::time::Duration::from_secs(300));
            // a real run that was still going after five minutes (an overloaded machine) says
            // nothing: counted, not compared
            if let (Ok(a), Ok(b)) = (&a, &b) {
                if a.outcome == realbin::RealOutcome::TimedOut || b.outcome == realbin::RealOutcome::TimedOut {
                    j.probes.add("real_binary_runs_inconclusive_timeout", 1);
                    return j;
                }
            }
            if let (Ok(a), Ok(b)) = (a, b) {
                j.probes.add("real_binary_twin_runs", 1);
                let ta = realbin::normalise_transcript(&a.stdout);
                let tb = realbin::normalise_transcript(&b.stdout);
                let sim: Vec<String> = j.sim_suffix_transcript.iter().filter(|l| !l.starts_with("> ")).cloned().collect();
                // one class for both: these are real executions with real key draws, so which of
                // the two comparisons fails first is not repeatable
                if ta != tb {
                    j.violations.push(("real_binary_disagrees".into(), format!("two runs of the real binary differ: {}", first_diff(&ta, &tb))));
                } else if ta != sim {
                    j.violations.push(("real_binary_disagrees".into(), format!("real binary vs simulation: {}", first_diff(&sim, &ta))));
                }
            }
        }
    }
    j
}

fn gen_game_lines(rng: &mut Rng, clocked: bool, out: &mut Vec<String>, forced: &mut Vec<(u64, u64)>, search_ordinal: &mut u64) -> (String, Vec<RMove>, Pos) {
    let (root, start) = match rng.below(3) {
        0 => ("startpos".to_string(), Pos::startpos()),
        1 => {
            let p = gen::sparse_position(rng);
            (format!("fen {}", crate::sworld::fen_for_search(&p)), p)
        }
        _ => {
            let mut p = gen::random_position(rng);
            if !p.is_valid() || p.legal_moves().is_empty() {
                p = Pos::startpos();
            }
            (format!("fen {}", crate::sworld::fen_for_search(&p)), p)
        }
    };
    let plies = rng.usize_below(7);
    let (ms, ps) = if rng.chance(1, 4) {
        // a history with planted repetitions: repetition draws then occur inside the tree
        let ms = crate::c09::gen_history(rng, &start);
        let ms: Vec<RMove> = ms.into_iter().take(40).collect();
        let mut ps = vec![start.clone()];
        for m in &ms {
            let q = ps.last().unwrap().make(m);
            ps.push(q);
        }
        // never end on a position without legal moves
        let mut k = ms.len();
        while k > 0 && ps[k].legal_moves().is_empty() {
            k -= 1;
        }
        (ms[..k].to_vec(), ps[..=k].to_vec())
    } else {
        gen::playout(rng, &start, plies, 1)
    };
    let n_go = rng.range(1, 3);
    for g in 0..n_go {
        let k = if ms.is_empty() { 0 } else { rng.usize_below(ms.len() + 1) };
        let k = if g + 1 == n_go { ms.len() } else { k };
        let mut l = format!("position {}", root);
        if k > 0 {
            l.push_str(" moves ");
            l.push_str(&gen::moves_uci(&ms[..k]).join(" "));
        }
        let p = &ps[k];
        out.push(l);
        if clocked && rng.chance(1, 6) {
            // a budget that is gone at once (whatever the handler keeps of it must not
            // reach a later depth-limited go)
            out.push(rng.pick(&["go movetime 0", "go wtime 3000 btime 3000", "go wtime 0 btime 0 winc 0 binc 0"]).to_string());
        } else if clocked && rng.chance(1, 2) {
            out.push(format!("go movetime {}", 100_000_000u64));
            forced.push((*search_ordinal, rng.log_range(1, 4000)));
        } else {
            let maxd = if p.piece_count() <= 7 { 4 } else { 3 };
            out.push(format!("go depth {}", rng.range(1, maxd)));
        }
        *search_ordinal += 1;
    }
    let last = ps.last().unwrap().clone();
    (root, ms, last)
}

/// Two depth-7 searches in one game without ucinewgame (several million nodes, a table of
/// more than a hundred thousand entries): whatever an engine does once its tables are
/// large or full must not depend on the key draw or the hasher state.
pub fn generate_huge(seed: u64) -> Scenario {
    let mut rng = Rng::new(seed);
    // an open position (the searches are several times larger than from the start position)
    let open = *rng.pick(&["e2e4 e7e5", "d2d4 d7d5", "e2e4 c7c5", "e2e4 e7e6 d2d4 d7d5", "d2d4 g8f6 c2c4 e7e6"]);
    let (p0, _) = interpret_position(&format!("position startpos moves {}", open)).unwrap();
    let (ms, _) = gen::playout(&mut rng, &p0, 2, 0);
    let m = gen::moves_uci(&ms);
    let d = 7;
    Scenario {
        // a small game first, so that the large searches come after a ucinewgame and are
        // compared with a fresh process too (whatever a new game sets up - table sizes,
        // defaults - must be what a process starts with)
        // two games first (the first large enough to make tables grow), so that the large
        // searches come after a second ucinewgame: what a new game inherits from the game
        // before the last one must not show either
        prefix: vec!["position startpos moves d2d4 d7d5".to_string(), "go depth 6".to_string(), "ucinewgame".to_string(), "position startpos moves e2e4".to_string(), "go depth 2".to_string()],
        suffix: vec![
            format!("position startpos moves {}", open),
            format!("go depth {}", d),
            format!("position startpos moves {} {}", open, m.join(" ")),
            format!("go depth {}", d),
        ],
        key_seeds: vec![rng.next_u64(), rng.next_u64()],
        forced: vec![],
        real_binary: true,
        node_cap: 30_000_000,
    }
}

/// Ten depth-7 searches of quiet opening positions in one game after a ucinewgame (more
/// than half a million distinct positions cached): beyond what a 16 MB table holds. One per
/// quick batch, fifteen per thorough batch.
pub fn generate_giant(seed: u64) -> Scenario {
    let mut rng = Rng::new(seed);
    // quiet opening positions: the largest number of distinct cached positions per node
    let mut opens = vec![
        "e2e4 e7e5", "d2d4 d7d5", "e2e4 c7c5", "e2e4 e7e6", "d2d4 g8f6", "c2c4 e7e5", "g1f3 d7d5", "e2e4 c7c6", "d2d4 e7e6", "c2c4 g8f6", "g1f3 g8f6", "e2e4 d7d6", "b2b3 e7e5", "g2g3 d7d5",
    ];
    rng.shuffle(&mut opens);
    let mut suffix = vec![];
    for o in opens.iter().take(10) {
        suffix.push(format!("position startpos moves {}", o));
        suffix.push("go depth 7".to_string());
    }
    Scenario {
        prefix: vec!["position startpos moves d2d4 d7d5".to_string(), "go depth 6".to_string(), "ucinewgame".to_string(), "position startpos moves e2e4".to_string(), "go depth 2".to_string()],
        suffix,
        key_seeds: vec![rng.next_u64()],
        forced: vec![],
        real_binary: false,
        node_cap: 30_000_000,
    }
}

pub fn generate(seed: u64, big: bool) -> Scenario {
    let mut rng = Rng::new(seed);
    if !big && rng.chance(1, 12) {
        // a prefix that sets positions up but never searches, then ucinewgame and a go without
        // a position command: the new game starts from the start position with no history
        let mut prefix = vec![];
        for _ in 0..rng.range(1, 2) {
            let (ms, _) = gen::playout(&mut rng, &Pos::startpos(), 6, 0);
            let (sh, _) = gen::shuffle_history(&Pos::startpos(), 8);
            let mut all = if rng.chance(1, 2) { gen::moves_uci(&sh) } else { vec![] };
            all.extend(gen::moves_uci(&ms));
            prefix.push(format!("position startpos moves {}", all.join(" ")));
            if rng.chance(1, 3) {
                prefix.push("isready".to_string());
            }
        }
        let mut suffix = vec![format!("go depth {}", rng.range(2, 4))];
        if rng.chance(1, 2) {
            suffix.push("position startpos moves e2e4".to_string());
            suffix.push(format!("go depth {}", rng.range(1, 3)));
        }
        return Scenario { prefix, suffix, key_seeds: vec![rng.next_u64(), rng.next_u64()], forced: vec![], real_binary: false, node_cap: 0 };
    }
    let mut prefix = vec![];
    let mut suffix = vec![];
    let mut forced = vec![];
    let mut ord = 0u64;
    let mut last_game: Option<(String, Vec<RMove>, Pos)> = None;
    if rng.chance(3, 4) {
        let games = rng.range(1, 3);
        for g in 0..games {
            if g > 0 && rng.chance(1, 2) {
                prefix.push("ucinewgame".to_string());
            }
            last_game = Some(gen_game_lines(&mut rng, true, &mut prefix, &mut forced, &mut ord));
        }
        if rng.chance(1, 4) {
            prefix.push("isready".into());
        }
        // commands every GUI sends and this engine does not implement: whatever they leave
        // behind must be gone after ucinewgame
        for _ in 0..rng.below(3) {
            let at = rng.usize_below(prefix.len() + 1);
            prefix.insert(at, rng.pick(&["stop", "stop", "ponderhit", "setoption name Clear Hash", "register later", "isready"]).to_string());
        }
    }
    let mut dummy = vec![];
    let mut o2 = 0;
    if big {
        // one large search (hundreds of thousands of nodes): a dependence on the key draw
        // that needs many probes of some table to show (a false hit with probability 2^-16)
        let plies = rng.usize_below(10);
        let (ms, ps) = gen::playout(&mut rng, &Pos::startpos(), plies, 0);
        let mut l = "position startpos".to_string();
        if !ms.is_empty() {
            l.push_str(" moves ");
            l.push_str(&gen::moves_uci(&ms).join(" "));
        }
        let _ = ps;
        suffix.push(l.clone());
        suffix.push(format!("go depth {}", if plies <= 4 { 6 } else { 5 }));
        // in half of these the game goes on with three more deep searches on the same engine
        // (no ucinewgame): whatever grows with the number of positions searched grows
        if rng.chance(1, 2) {
            let mut cur = ps.last().unwrap().clone();
            let mut all = gen::moves_uci(&ms);
            for _ in 0..3 {
                let (more, qs) = gen::playout(&mut rng, &cur, 2, 0);
                if more.len() < 2 || qs.last().unwrap().legal_moves().is_empty() {
                    break;
                }
                all.extend(gen::moves_uci(&more));
                cur = qs.last().unwrap().clone();
                suffix.push(format!("position startpos moves {}", all.join(" ")));
                suffix.push("go depth 5".to_string());
            }
        }
        return Scenario { prefix, suffix, key_seeds: vec![rng.next_u64(), rng.next_u64(), rng.next_u64()], forced, real_binary: false, node_cap: 0 };
    }
    if let (Some((root, ms, last)), true) = (&last_game, rng.chance(1, 3)) {
        // the game of the prefix goes on after ucinewgame (a GUI that restarts its engine in
        // mid-game): same start, same moves, possibly a few more
        let ext = rng.usize_below(4);
        let (more, ps) = gen::playout(&mut rng, last, ext, 1);
        let mut all = gen::moves_uci(ms);
        all.extend(gen::moves_uci(&more));
        let mut l = format!("position {}", root);
        if !all.is_empty() {
            l.push_str(" moves ");
            l.push_str(&all.join(" "));
        }
        if !ps.last().unwrap().legal_moves().is_empty() {
            suffix.push(l);
            let maxd = if ps.last().unwrap().piece_count() <= 7 { 4 } else { 3 };
            suffix.push(format!("go depth {}", rng.range(1, maxd)));
        }
    }
    if rng.chance(1, 6) {
        // a go without a position command: both processes must search the start position
        suffix.push(format!("go depth {}", rng.range(1, 3)));
    }
    let games = rng.range(if suffix.is_empty() { 1 } else { 0 }, 2);
    for g in 0..games {
        if (g > 0 || !suffix.is_empty()) && rng.chance(1, 2) {
            suffix.push("ucinewgame".to_string());
        }
        gen_game_lines(&mut rng, false, &mut suffix, &mut dummy, &mut o2);
    }
    if rng.chance(1, 15) {
        // a long game (200-700 plies of piece shuffles after a few moves: a position line of
        // 1-3.5 KB): where in the input stream the line falls differs between the session
        // with the prefix and the fresh process
        let (ms0, ps0) = gen::playout(&mut rng, &Pos::startpos(), 6, 0);
        let target = rng.range(200, 700) as usize;
        let (ms1, end) = gen::shuffle_history(ps0.last().unwrap(), target);
        if !end.legal_moves().is_empty() {
            let mut all = gen::moves_uci(&ms0);
            all.extend(gen::moves_uci(&ms1));
            suffix.push(format!("position startpos moves {}", all.join(" ")));
            suffix.push(format!("go depth {}", rng.range(1, 3)));
        }
    }
    if rng.chance(1, 3) {
        suffix.insert(0, "isready".into());
    }
    Scenario {
        prefix,
        suffix,
        key_seeds: vec![rng.next_u64(), rng.next_u64(), rng.next_u64()],
        forced,
        real_binary: rng.chance(1, 8),
        node_cap: 0,
    }
}

fn violations_of(sc: &Scenario, j: &Judged, i: u64, seed: u64) -> Vec<Violation> {
    j.violations
        .iter()
        .map(|(c, d)| Violation {
            prop: "C13".into(),
            class: c.clone(),
            detail: d.clone(),
            scenario: sc.to_json(),
            sim_index: i,
            sim_seed: seed,
            log_hash: j.log_hash,
        })
        .collect()
}

pub fn replay_value(v: &Value) -> Vec<Violation> {
    let Some(sc) = Scenario::from_json(v) else { return vec![] };
    let j = run_scenario(&sc);
    violations_of(&sc, &j, 0, 0)
}

pub fn shrink_value(v: &Value) -> Vec<Value> {
    let Some(sc) = Scenario::from_json(v) else { return vec![] };
    let mut out = vec![];
    if sc.real_binary {
        let mut a = sc.clone();
        a.real_binary = false;
        out.push(a.to_json());
    }
    if !sc.prefix.is_empty() {
        // prefix halves / single lines (forced ordinals are kept aligned by re-counting go lines)
        let recount = |orig: &Scenario, keep: &[usize]| -> Scenario {
            let mut a = orig.clone();
            a.prefix = keep.iter().map(|&i| orig.prefix[i].clone()).collect();
            // map old search ordinals to new ones
            let mut old_ord = 0u64;
            let mut new_ord = 0u64;
            let mut map = std::collections::HashMap::new();
            for (i, l) in orig.prefix.iter().enumerate() {
                if l.starts_with("go") {
                    if keep.contains(&i) {
                        map.insert(old_ord, new_ord);
                        new_ord += 1;
                    }
                    old_ord += 1;
                }
            }
            a.forced = orig.forced.iter().filter_map(|(o, r)| map.get(o).map(|n| (*n, *r))).collect();
            a
        };
        let n = sc.prefix.len();
        out.push(recount(&sc, &[]).to_json());
        out.push(recount(&sc, &(n / 2..n).collect::<Vec<_>>()).to_json());
        out.push(recount(&sc, &(0..n / 2).collect::<Vec<_>>()).to_json());
        for i in 0..n {
            let keep: Vec<usize> = (0..n).filter(|&k| k != i).collect();
            out.push(recount(&sc, &keep).to_json());
        }
    }
    for i in 0..sc.suffix.len() {
        let mut a = sc.clone();
        a.suffix.remove(i);
        out.push(a.to_json());
    }
    for i in 0..sc.suffix.len() {
        if let Some(d) = sc.suffix[i].strip_prefix("go depth ") {
            if let Ok(d) = d.trim().parse::<u32>() {
                if d > 1 {
                    let mut a = sc.clone();
                    a.suffix[i] = format!("go depth {}", d - 1);
                    out.push(a.to_json());
                }
            }
        }
    }
    if sc.key_seeds.len() > 2 {
        for i in 0..sc.key_seeds.len() {
            let mut a = sc.clone();
            a.key_seeds.remove(i);
            out.push(a.to_json());
        }
    }
    out
}

pub fn run(ctx: &Ctx) -> i32 {
    let sims = ctx.n(1200, 20000);
    let real_bin = realbin::real_binary_path();
    let rep = run_batch(sims, ctx.workers, |i| {
        let seed = derive(ctx.seed, "C13", i);
        // one sim in forty searches deep (the prefix games stay small)
        let big = i % 40 == 7;
        // one sim per quick batch (fifteen per thorough batch) is huge
        let huge = i % 1300 == 3;
        let giant = i % 1300 == 5;
        let sc = if giant { generate_giant(seed) } else if huge { generate_huge(seed) } else { generate(seed, big) };
        let j = run_scenario(&sc);
        let mut res = SimResult::default();
        if giant {
            res.probes.add("giant_scenarios_ten_depth7_searches_after_ucinewgame", 1);
        }
        res.evaluations = j.evaluations;
        res.distinct.push(hash_str(&sc.to_json().to_string()));
        res.probes.merge(&j.probes);
        res.log_hash = j.log_hash;
        res.faults.add("key_redraw", sc.key_seeds.len() as u64 + 1);
        res.faults.add("restart_ucinewgame", (!sc.prefix.is_empty()) as u64);
        if sc.prefix.iter().any(|l| l == "stop") {
            res.probes.add("prefix_contains_stop", 1);
        }
        if big {
            res.probes.add("large_search_scenarios", 1);
        }
        if huge {
            res.probes.add("huge_scenarios_two_depth7_searches_in_one_game", 1);
        }
        if let (Some(p), Some(q)) = (sc.prefix.iter().rev().find(|l| l.starts_with("position")), sc.suffix.iter().find(|l| l.starts_with("position"))) {
            if q.starts_with(p.as_str()) {
                res.probes.add("suffix_continues_the_game_of_the_prefix", 1);
            }
        }
        res.faults.add("deadline_expired_mid_search", sc.forced.len() as u64);
        res.violations = violations_of(&sc, &j, i, seed);
        if i < 3 {
            res.sample = Some(sc.to_json());
        }
        res
    });
    let ev = Evidence {
        level: "exploration",
        rule: "One case = one script pair: an adversarial prefix (0-3 games, clock-limited searches interrupted at seeded reads, depth-limited searches, with/without ucinewgame, standard commands the engine ignores such as stop/ponderhit/setoption at seeded places; one game in four has a history with planted repetitions) and a depth-limited suffix (1-2 games, depth 1..4, sometimes a go before any position command, in one case of four the game of the prefix continued after ucinewgame with the same start and move list; one case in forty is a depth 5-6 search of several hundred thousand nodes, half of them followed by three more depth-5 searches along the same game without ucinewgame; one case per 1300 runs two depth-7 searches in one game (millions of nodes, a table of more than 10^5 entries)). Runs: prefix+ucinewgame+suffix under three key seeds (transcripts of info/bestmove lines minus time/nps must be identical; the whole transcript when the prefix has no clocked go, else the part after ucinewgame), the same under the first key set with a clock a million times slower (1 ms of virtual time per node; depth-limited output must not notice), and the suffix alone in a fresh process (must equal the part after ucinewgame). Prefixes also contain budgets that are gone at once (go movetime 0, clocks below the reserve). One case in eight is also run twice on the real binary (two real key draws) and compared with the simulation. Evaluations = simulated processes; all cases are non-trivial (each contains at least one search). The huge scenario (two depth-7 searches) and one giant scenario per quick batch (ten depth-7 searches of quiet openings, ~700 000 distinct positions cached) come after a second ucinewgame whose first game was large, and are compared with a fresh process (the huge one also with two real-binary runs); one prefix in twelve sets positions up without searching and the suffix starts with a go without position; one suffix in fifteen has a position line of 1-3.5 KB.".into(),
        extra: {
            let mut m = serde_json::Map::new();
            m.insert("real_binary_available".into(), json!(real_bin.is_some()));
            m
        },
        assumptions: vec!["HashMap's per-process hasher state is not behind a seam; it differs between the twin runs like the keys do".into()],
        exhaustive: None,
    };
    conclude(ctx, &rep, ev, &replay_value, &shrink_value)
}

pub fn replay(path: &std::path::Path) -> i32 {
    let doc: Value = read_replay(path);
    let vs = replay_value(&doc["scenario"]);
    conclude_replay("C13", &vs, doc["class"].as_str())
}
