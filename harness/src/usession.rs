//! World U — one simulated engine process speaking UCI on its stdin/stdout.
//! Two drivers: loop-driven (the real `uci_loop` pulls lines from the reader seam; the
//! simulated GUI runs inside the read callback, having seen all output so far) and
//! step-driven (lines fed through the command handler so that private state can be
//! inspected between commands).

use crate::rules::*;
use crate::simworld::*;
use engine::board::Board;
use engine::pieces::{Color, Piece};
use engine::uci::Flounder;
use std::cell::RefCell;
use std::rc::Rc;

/// The rules model's reading of a `position` command (the oracle's side).
pub fn interpret_position(line: &str) -> Option<(Pos, Vec<Pos>)> {
    let parts: Vec<&str> = line.split_whitespace().collect();
    if parts.first() != Some(&"position") || parts.len() < 2 {
        return None;
    }
    let mut pos = match parts[1] {
        "startpos" => Pos::startpos(),
        "fen" => {
            if parts.len() < 8 {
                return None;
            }
            Pos::from_fen(&parts[2..8].join(" ")).ok()?
        }
        _ => return None,
    };
    let mut history = vec![pos.clone()];
    if let Some(i) = parts.iter().position(|&x| x == "moves") {
        for m in &parts[i + 1..] {
            let mv = pos.find_uci(m)?;
            pos = pos.make(&mv);
            history.push(pos.clone());
        }
    }
    Some((pos, history))
}

/// Field-by-field comparison of the engine's board with the rules model's position.
pub fn board_diff(b: &Board, p: &Pos) -> Option<String> {
    let pieces = [
        (Piece::Pawn, PAWN),
        (Piece::Knight, KNIGHT),
        (Piece::Bishop, BISHOP),
        (Piece::Rook, ROOK),
        (Piece::Queen, QUEEN),
        (Piece::King, KING),
    ];
    // internal consistency: piece sets pairwise disjoint, colour sets disjoint, unions equal
    let mut union_p = 0u64;
    for (i, (pc, _)) in pieces.iter().enumerate() {
        let bb = b.bb_piece(*pc);
        if union_p & bb != 0 {
            return Some(format!("inconsistent board: piece set {} overlaps another piece set", i));
        }
        union_p |= bb;
    }
    let w = b.bb_color(Color::White);
    let k = b.bb_color(Color::Black);
    if w & k != 0 {
        return Some("inconsistent board: a square is both white and black".into());
    }
    if (w | k) != union_p {
        return Some("inconsistent board: colour sets and piece sets cover different squares".into());
    }
    if b.bb(Color::White, Piece::King).count_ones() != 1 || b.bb(Color::Black, Piece::King).count_ones() != 1 {
        return Some("inconsistent board: not exactly one king per side".into());
    }
    for s in 0..64u8 {
        let want = p.sq[s as usize];
        let got_piece = b.get_piece_at(s);
        let got_color = b.get_color_at(s);
        let got = match (got_piece, got_color) {
            (None, None) => EMPTY,
            (Some(pc), Some(c)) => {
                let k = pieces.iter().find(|(x, _)| *x == pc).unwrap().1;
                if c == Color::Black {
                    k | BLACK
                } else {
                    k
                }
            }
            _ => 0xFF,
        };
        if got != want {
            return Some(format!("square {}: engine has {:#x}, rules model has {:#x}", sq_name(s), got, want));
        }
    }
    let wtm = b.active_color() == Color::White;
    if wtm != p.white_to_move {
        return Some(format!("side to move: engine {}, rules model {}", if wtm { "white" } else { "black" }, if p.white_to_move { "white" } else { "black" }));
    }
    let (wk, wq) = b.castling_ability(Color::White);
    let (bk, bq) = b.castling_ability(Color::Black);
    if [wk, wq, bk, bq] != p.castle {
        return Some(format!("castling rights KQkq: engine {:?}, rules model {:?}", [wk, wq, bk, bq], p.castle));
    }
    if b.en_passant_target != p.ep {
        return Some(format!(
            "en-passant target: engine {:?}, rules model {:?}",
            b.en_passant_target.map(sq_name),
            p.ep.map(sq_name)
        ));
    }
    None
}

// ---------------------------------------------------------------------------------
// step-driven
// ---------------------------------------------------------------------------------

pub struct StepSession {
    pub proc_: Proc,
    pub fl: Option<Flounder>,
}

impl StepSession {
    pub fn start(st: SimState) -> (StepSession, Outcome) {
        let proc_ = Proc::start(st, None);
        let (o, fl) = proc_.run(Flounder::new);
        (StepSession { proc_, fl }, o)
    }

    /// Feeds one line through the engine's command handler (after the same trim and
    /// empty-line skip that `uci_loop` applies).
    pub fn cmd(&mut self, line: &str) -> Outcome {
        let t = line.trim().to_string();
        {
            let mut st = self.proc_.st.borrow_mut();
            st.ev(&format!("cmd {}", t));
        }
        if t.is_empty() {
            return Outcome::Returned;
        }
        let fl = self.fl.as_mut().expect("engine not started");
        let (o, _) = self.proc_.run(|| fl.verif_handle_command(&t));
        o
    }

    pub fn board(&self) -> Board {
        *self.fl.as_ref().unwrap().verif_board()
    }

    pub fn out_len(&self) -> usize {
        self.proc_.st.borrow().out_lines.len()
    }

    pub fn out_since(&self, i: usize) -> Vec<String> {
        self.proc_.st.borrow().out_lines[i..].to_vec()
    }
}

// ---------------------------------------------------------------------------------
// loop-driven
// ---------------------------------------------------------------------------------

/// What the simulated GUI sees when the engine asks for more input.
pub struct GuiView<'a> {
    /// all complete output lines so far
    pub out: &'a [String],
    /// index into `out` at the time the previous line was handed over
    pub out_at_last_send: usize,
    pub searches: &'a [SearchRecord],
    pub now_ns: u64,
}

/// One line handed to the engine and what came back before the next one was requested.
#[derive(Clone, Debug)]
pub struct Exchange {
    pub line: String,
    pub output: Vec<String>,
    /// index of the first search started while handling this line, if any
    pub search_ordinal: Option<usize>,
    pub ns_before: u64,
    pub ns_after: u64,
}

pub struct LoopReport {
    pub outcome: Outcome,
    pub exchanges: Vec<Exchange>,
    pub st: Rc<RefCell<SimState>>,
}

/// Runs the real `uci_loop` against a GUI that supplies one line per request.
/// `next` returns the next raw line (without terminator) or None for end of input.
pub fn run_loop(st: SimState, mut next: Box<dyn FnMut(&GuiView) -> Option<String>>) -> LoopReport {
    struct Track {
        exchanges: Vec<Exchange>,
        out_at_last_send: usize,
        searches_at_last_send: usize,
        done: bool,
    }
    let track = Rc::new(RefCell::new(Track {
        exchanges: vec![],
        out_at_last_send: 0,
        searches_at_last_send: 0,
        done: false,
    }));
    let t2 = track.clone();
    let gui: Gui = Box::new(move |st: &mut SimState| {
        let mut t = t2.borrow_mut();
        let t = &mut *t;
        // close the previous exchange
        let out_len = st.out_lines.len();
        let (oa, sa) = (t.out_at_last_send, t.searches_at_last_send);
        if let Some(last) = t.exchanges.last_mut() {
            if last.ns_after == 0 {
                last.output = st.out_lines[oa..].to_vec();
                last.ns_after = st.now_ns;
                if st.searches.len() > sa {
                    last.search_ordinal = Some(sa);
                }
            }
        }
        if t.done {
            return;
        }
        let view = GuiView {
            out: &st.out_lines,
            out_at_last_send: t.out_at_last_send,
            searches: &st.searches,
            now_ns: st.now_ns,
        };
        match next(&view) {
            Some(line) => {
                t.out_at_last_send = out_len;
                t.searches_at_last_send = st.searches.len();
                t.exchanges.push(Exchange {
                    line: line.clone(),
                    output: vec![],
                    search_ordinal: None,
                    ns_before: st.now_ns,
                    ns_after: 0,
                });
                st.push_line(&line);
            }
            None => {
                t.done = true;
            }
        }
    });
    let proc_ = Proc::start(st, Some(gui));
    let (outcome, _) = proc_.run(|| {
        let mut f = Flounder::new();
        f.uci_loop();
    });
    let st = proc_.finish();
    let mut t = track.borrow_mut();
    // the last exchange is closed by whatever ended the process
    {
        let s = st.borrow();
        let (oa, sa) = (t.out_at_last_send, t.searches_at_last_send);
        if let Some(last) = t.exchanges.last_mut() {
            if last.ns_after == 0 {
                last.output = s.out_lines[oa..].to_vec();
                last.ns_after = s.now_ns;
                if s.searches.len() > sa {
                    last.search_ordinal = Some(sa);
                }
            }
        }
    }
    LoopReport {
        outcome,
        exchanges: std::mem::take(&mut t.exchanges),
        st,
    }
}

/// Runs a fixed script (one line per request, then end of input).
pub fn run_script(st: SimState, lines: Vec<String>) -> LoopReport {
    let mut it = lines.into_iter();
    run_loop(st, Box::new(move |_| it.next()))
}

/// Judges the answer to one `go`: exactly one bestmove, last line, legal per the rules
/// model, never `0000` when a legal move exists. Returns (class, detail).
pub fn judge_go(pos: &Pos, output: &[String]) -> Option<(String, String)> {
    let bm: Vec<(usize, &String)> = output.iter().enumerate().filter(|(_, l)| l.starts_with("bestmove")).collect();
    if bm.is_empty() {
        return Some(("no_bestmove".into(), format!("no bestmove line in {:?}", output)));
    }
    if bm.len() > 1 {
        return Some(("several_bestmoves".into(), format!("{} bestmove lines: {:?}", bm.len(), output)));
    }
    if bm[0].0 != output.len() - 1 {
        return Some(("output_after_bestmove".into(), format!("lines after bestmove: {:?}", &output[bm[0].0 + 1..])));
    }
    let tok = bm[0].1.split_whitespace().nth(1).unwrap_or("");
    let legal = pos.legal_moves();
    if legal.is_empty() {
        // The property prescribes nothing about the token printed for a position without
        // legal moves ("0000 only when ..." restricts 0000, it does not demand it): an engine
        // answering `bestmove (none)` there is as right as one answering `bestmove 0000`.
        // Exactly one bestmove line is still required (checked above).
    } else if tok == "0000" {
        return Some(("null_move_with_legal_moves".into(), format!("bestmove 0000 although {} moves are legal in {}", legal.len(), pos.to_fen())));
    } else if !legal.iter().any(|m| m.uci() == tok) {
        return Some(("illegal_bestmove".into(), format!("bestmove {} is not legal in {}", tok, pos.to_fen())));
    }
    for l in output.iter().take(bm[0].0) {
        if !l.starts_with("info") {
            return Some(("unexpected_output".into(), format!("unexpected line {:?} while answering go", l)));
        }
    }
    None
}
