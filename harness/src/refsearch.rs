//! M — the reference value of a fixed-depth search: plain negamax without pruning,
//! ordering or caching over the engine's own boards and move generator (the rules are
//! cross-checked against R elsewhere), with leaves scored by the engine's own
//! quiescence search run with the full window on a separate, fresh searcher (the
//! property's "leaves are scored by the engine's own quiescence evaluation").
//!
//! Values are compared after `norm`: anything at or beyond the search window is a forced
//! win / loss, everything else a number. `norm` is monotone and commutes with negation
//! and max, so the comparison is well defined although the engine represents mates in
//! three different ways.

use crate::simworld::*;
use engine::board::Board;
use engine::move_gen::MoveGenerator;
use engine::moves::Move;
use engine::pieces::{Color, Piece};
use engine::search::Searcher;
use std::collections::HashMap;

pub const WON: i32 = 1_000_000;
pub const LOST: i32 = -1_000_000;
pub const WINDOW: i32 = 32767;

pub fn norm(s: i32) -> i32 {
    if s >= WINDOW {
        WON
    } else if s <= -WINDOW {
        LOST
    } else {
        s
    }
}

pub fn neg(v: i32) -> i32 {
    -v
}

pub const PIECES: [Piece; 6] = [
    Piece::Pawn,
    Piece::Knight,
    Piece::Bishop,
    Piece::Rook,
    Piece::Queen,
    Piece::King,
];

#[derive(Clone, Copy, PartialEq, Eq, Hash, Debug, PartialOrd, Ord)]
pub struct BKey {
    pub bb: [u64; 12],
    pub flags: u8,
    pub ep: u8,
}

pub fn bkey(b: &Board) -> BKey {
    let mut bb = [0u64; 12];
    for (i, p) in PIECES.iter().enumerate() {
        bb[i] = b.bb(Color::White, *p);
        bb[6 + i] = b.bb(Color::Black, *p);
    }
    let (wk, wq) = b.castling_ability(Color::White);
    let (bk, bq) = b.castling_ability(Color::Black);
    let flags = (b.active_color() == Color::White) as u8
        | (wk as u8) << 1
        | (wq as u8) << 2
        | (bk as u8) << 3
        | (bq as u8) << 4;
    BKey {
        bb,
        flags,
        ep: b.en_passant_target.map(|s| s + 1).unwrap_or(0),
    }
}

#[derive(Debug, Clone, PartialEq, Eq)]
pub enum RefError {
    /// The quiescence tree of some leaf exceeded the node budget (position skipped).
    QuiescenceBudget,
    /// The unpruned tree exceeded the node budget.
    TreeBudget,
    /// The engine's own uninterrupted search exceeds the cost cap of this tier.
    EngineSearchTooLarge,
    EngineCrash(String),
}

pub struct Reference {
    pub gen: MoveGenerator,
    /// Fresh searcher used only for full-window quiescence at leaves.
    pub q_searcher: Searcher,
    pub q_memo: HashMap<BKey, i32>,
    /// (position, remaining depth) -> value, filled by `value`.
    pub memo: HashMap<(BKey, u8), i32>,
    pub q_node_budget: u64,
    pub tree_node_budget: u64,
    pub tree_nodes: u64,
    pub q_nodes_total: u64,
    pub probes_mate_inside_tree: u64,
    pub probes_stalemate_inside_tree: u64,
}

impl Reference {
    pub fn new() -> Reference {
        Reference {
            gen: MoveGenerator::new(),
            q_searcher: Searcher::new(),
            q_memo: HashMap::new(),
            memo: HashMap::new(),
            q_node_budget: 300_000,
            tree_node_budget: 2_000_000,
            tree_nodes: 0,
            q_nodes_total: 0,
            probes_mate_inside_tree: 0,
            probes_stalemate_inside_tree: 0,
        }
    }

    pub fn clear(&mut self) {
        self.q_memo.clear();
        self.memo.clear();
        self.tree_nodes = 0;
    }

    /// The engine's own quiescence value of `b` with the full window, normalised.
    pub fn q(&mut self, b: &Board) -> Result<i32, RefError> {
        let k = bkey(b);
        if let Some(v) = self.q_memo.get(&k) {
            return Ok(*v);
        }
        // Runs in its own simulated process so that the step cap applies.
        let mut st = SimState::new(0, 0);
        st.max_nodes_per_search = self.q_node_budget;
        let proc_ = Proc::start(st, None);
        let qs = &mut self.q_searcher;
        let (outcome, val) = proc_.run(|| qs.verif_quiescence(b));
        let st = proc_.finish();
        self.q_nodes_total += st.borrow().searches.last().map(|s| s.nodes).unwrap_or(0);
        match outcome {
            Outcome::Returned => {
                let v = norm(val.unwrap());
                self.q_memo.insert(k, v);
                Ok(v)
            }
            Outcome::Aborted(_) => Err(RefError::QuiescenceBudget),
            Outcome::Crash(m) => Err(RefError::EngineCrash(m)),
            Outcome::Exit(_) => Err(RefError::EngineCrash("exit".into())),
        }
    }

    /// M(b, depth), normalised.
    pub fn value(&mut self, b: &Board, depth: u8) -> Result<i32, RefError> {
        let k = (bkey(b), depth);
        if let Some(v) = self.memo.get(&k) {
            return Ok(*v);
        }
        self.tree_nodes += 1;
        if self.tree_nodes > self.tree_node_budget {
            return Err(RefError::TreeBudget);
        }
        let v = if depth == 0 {
            // the engine asks for legal moves only when depth > 0; at depth 0 it goes to
            // quiescence, which itself detects mate (stalemate is scored statically)
            self.q(b)?
        } else {
            let moves = self.gen.generate_moves(b);
            if moves.is_empty() {
                if self.gen.is_in_check(b) {
                    self.probes_mate_inside_tree += 1;
                    LOST
                } else {
                    self.probes_stalemate_inside_tree += 1;
                    0
                }
            } else {
                let mut best = i32::MIN;
                for m in moves {
                    let c = b.clone_with_move(&m);
                    let v = neg(self.value(&c, depth - 1)?);
                    if v > best {
                        best = v;
                    }
                }
                best
            }
        };
        self.memo.insert(k, v);
        Ok(v)
    }

    /// Value of playing `m` in `b` with `depth` plies in total.
    pub fn move_value(&mut self, b: &Board, m: &Move, depth: u8) -> Result<i32, RefError> {
        let c = b.clone_with_move(m);
        Ok(neg(self.value(&c, depth - 1)?))
    }
}

/// Enumerates the tree below `b` to `plies` plies: every (position, ply) reached.
pub fn enumerate_tree(gen: &MoveGenerator, b: &Board, plies: u8, out: &mut Vec<(Board, u8)>, ply: u8) {
    out.push((*b, ply));
    if ply == plies {
        return;
    }
    for m in gen.generate_moves(b) {
        let c = b.clone_with_move(&m);
        enumerate_tree(gen, &c, plies, out, ply + 1);
    }
}
