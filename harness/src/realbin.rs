//! Fidelity runs against the real engine binary (built from the repository with the
//! guard off, see the `check` script): same bytes on a real pipe, real stdout, real exit
//! status. This is what covers `main.rs`, which the harness cannot include.

use std::io::{Read, Write};
use std::path::PathBuf;
use std::process::{Command, Stdio};
use std::time::{Duration, Instant};

pub fn real_binary_path() -> Option<PathBuf> {
    let p = std::env::var("VERIF_REAL_BIN").ok().map(PathBuf::from)?;
    if p.exists() {
        Some(p)
    } else {
        None
    }
}

#[derive(Debug, Clone, PartialEq, Eq)]
pub enum RealOutcome {
    Exited(i32),
    Signalled,
    /// Still running after the timeout with its stdin closed (killed by the harness).
    TimedOut,
}

pub struct RealRun {
    pub outcome: RealOutcome,
    pub stdout: String,
    pub wall: Duration,
}

/// Feeds `input` to the real binary, closes its stdin, waits up to `timeout`.
pub fn run_real(bin: &PathBuf, input: &[u8], timeout: Duration) -> std::io::Result<RealRun> {
    let t0 = Instant::now();
    let mut child = Command::new(bin)
        .stdin(Stdio::piped())
        .stdout(Stdio::piped())
        .stderr(Stdio::null())
        .spawn()?;
    {
        let mut stdin = child.stdin.take().unwrap();
        let _ = stdin.write_all(input);
        // dropped here: end of input
    }
    let mut stdout = child.stdout.take().unwrap();
    let reader = std::thread::spawn(move || {
        let mut s = Vec::new();
        let _ = stdout.read_to_end(&mut s);
        s
    });
    let outcome = loop {
        match child.try_wait()? {
            Some(status) => {
                break match status.code() {
                    Some(c) => RealOutcome::Exited(c),
                    None => RealOutcome::Signalled,
                }
            }
            None => {
                if t0.elapsed() >= timeout {
                    let _ = child.kill();
                    let _ = child.wait();
                    break RealOutcome::TimedOut;
                }
                std::thread::sleep(Duration::from_millis(2));
            }
        }
    };
    let out = reader.join().unwrap_or_default();
    Ok(RealRun {
        outcome,
        stdout: String::from_utf8_lossy(&out).to_string(),
        wall: t0.elapsed(),
    })
}

/// Removes the `time` and `nps` fields (real time) from an `info` line.
pub fn strip_time_fields(line: &str) -> String {
    let toks: Vec<&str> = line.split_whitespace().collect();
    if toks.first() != Some(&"info") {
        return line.trim_end().to_string();
    }
    let mut out: Vec<&str> = vec![];
    let mut i = 0;
    while i < toks.len() {
        if (toks[i] == "time" || toks[i] == "nps") && i + 1 < toks.len() {
            i += 2;
            continue;
        }
        out.push(toks[i]);
        i += 1;
    }
    out.join(" ")
}

pub fn normalise_transcript(text: &str) -> Vec<String> {
    text.lines().map(strip_time_fields).collect()
}
