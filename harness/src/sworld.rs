//! World S — the searcher driven directly (`find_best_move` is public), under the same
//! clock / key / buggify seams as a UCI session. Shared by C05, C06, C07, C15.

use crate::refsearch::*;
use crate::rng::Rng;
use crate::rules::Pos;
use crate::simworld::*;
use engine::board::Board;
use engine::moves::Move;
use engine::search::Searcher;
use engine::transposition::{Bounds, Entry};
use std::cell::RefCell;
use std::collections::HashMap;
use std::rc::Rc;
use std::time::Duration;

pub const HUGE_LIMIT: Duration = Duration::from_secs(100_000);

/// Per-worker-thread reusable state (building lookup tables costs ~8 ms).
pub struct Bench {
    pub searcher: Searcher,
    pub reference: Reference,
    pub pos: Option<PosCtx>,
    /// positions whose uninterrupted engine search is larger than this are rejected
    pub max_engine_nodes: u64,
}

pub struct PosCtx {
    pub fen: String,
    pub depth: u8,
    pub board: Board,
    /// every (position, ply) of the tree to ply depth-1 (the nodes that can be cached)
    pub tree: Vec<(Board, u8)>,
    /// M(root, d) for d = 0..=depth
    pub m_root: Vec<i32>,
    /// key_seed -> (hash -> index into tree)
    pub hash_maps: HashMap<u64, Rc<HashMap<u64, usize>>>,
    /// reads of an uninterrupted clocked search, and the read index at each `info` line
    pub total_reads: u64,
    pub iter_marks: Vec<u64>,
    pub total_nodes: u64,
    /// the positions at ply `depth` (the horizon), enumerated only when an entry is found
    /// that is not in `tree`; key_seed -> (hash -> index)
    pub leaves: Option<Vec<Board>>,
    pub leaf_maps: HashMap<u64, Rc<HashMap<u64, usize>>>,
}

thread_local! {
    static BENCH: RefCell<Option<Bench>> = RefCell::new(None);
}

pub fn with_bench<R>(f: impl FnOnce(&mut Bench) -> R) -> R {
    BENCH.with(|b| {
        let mut b = b.borrow_mut();
        if b.is_none() {
            // build outside any simulated process, so that the construction (key draws)
            // never shows up in a sim's event log
            let prev = engine::verif_seam::uninstall();
            let bench = Some(Bench {
                searcher: Searcher::new(),
                reference: Reference::new(),
                pos: None,
                max_engine_nodes: 5_000_000,
            });
            if let Some(p) = prev {
                engine::verif_seam::install(p);
            }
            *b = bench;
        }
        if b.is_none() {
            *b = Some(Bench {
                searcher: Searcher::new(),
                reference: Reference::new(),
                pos: None,
                max_engine_nodes: 5_000_000,
            });
        }
        f(b.as_mut().unwrap())
    })
}

/// FEN with counters that fit the engine's parser regardless of C04's subject.
pub fn fen_for_search(p: &Pos) -> String {
    let mut q = p.clone();
    q.halfmove = q.halfmove.min(99);
    q.fullmove = q.fullmove.clamp(1, 200);
    q.to_fen()
}

pub struct OneSearch {
    pub outcome: Outcome,
    pub score: i32,
    pub mv: Option<Move>,
    pub rec: Option<SearchRecord>,
    pub infos: Vec<String>,
}

/// Shared state of one scenario's simulated process.
pub struct Session {
    pub proc_: Proc,
}

impl Session {
    pub fn new(st: SimState) -> Session {
        Session {
            proc_: Proc::start(st, None),
        }
    }
    pub fn st(&self) -> std::cell::RefMut<'_, SimState> {
        self.proc_.st.borrow_mut()
    }

    pub fn search(
        &self,
        s: &mut Searcher,
        board: &Board,
        depth: u8,
        limit: Option<Duration>,
    ) -> OneSearch {
        let before = self.proc_.st.borrow().out_lines.len();
        let nsearch = self.proc_.st.borrow().searches.len();
        let (outcome, r) = self.proc_.run(|| s.find_best_move(board, depth, limit));
        let st = self.proc_.st.borrow();
        let rec = if st.searches.len() > nsearch {
            st.searches.last().cloned()
        } else {
            None
        };
        let infos = st.out_lines[before..].to_vec();
        let (score, mv) = r.unwrap_or((0, None));
        OneSearch {
            outcome,
            score,
            mv,
            rec,
            infos,
        }
    }

    pub fn search_fixed(&self, s: &mut Searcher, board: &Board, depth: u8) -> OneSearch {
        let nsearch = self.proc_.st.borrow().searches.len();
        let (outcome, r) = self.proc_.run(|| s.verif_search_fixed(board, depth));
        let st = self.proc_.st.borrow();
        let rec = if st.searches.len() > nsearch {
            st.searches.last().cloned()
        } else {
            None
        };
        let (score, mv) = r.unwrap_or((0, None));
        OneSearch {
            outcome,
            score,
            mv,
            rec,
            infos: vec![],
        }
    }

    /// Fresh engine state inside this simulated process: either the state-reset hook or
    /// a real `Searcher::new()` (must be equivalent).
    pub fn fresh(&self, s: &mut Searcher, really_new: bool) -> Outcome {
        let (o, _) = self.proc_.run(|| {
            if really_new {
                *s = Searcher::new();
            } else {
                s.verif_reset_state();
            }
        });
        o
    }
}

pub fn move_str(m: &Option<Move>) -> String {
    m.map(|m| m.to_algebraic()).unwrap_or_else(|| "none".into())
}

/// Builds (or reuses) the per-position context: tree, reference values, read counts.
pub fn prepare_pos(bench: &mut Bench, fen: &str, depth: u8) -> Result<(), RefError> {
    if let Some(p) = &bench.pos {
        if p.fen == fen && p.depth == depth {
            return Ok(());
        }
    }
    bench.pos = None;
    bench.reference.clear();
    let board = Board::new(fen);
    // cheap pre-filters before the expensive reference: size of the unpruned tree, size of
    // the engine's own search
    let leaves = bench.reference.gen.run_perft(&board, depth as usize) as u64;
    if leaves > bench.reference.tree_node_budget {
        return Err(RefError::TreeBudget);
    }
    let mut st = SimState::new(1, 1);
    st.max_nodes_per_search = bench.max_engine_nodes.saturating_add(1);
    let sess = Session::new(st);
    sess.fresh(&mut bench.searcher, false);
    let r = sess.search(&mut bench.searcher, &board, depth, Some(HUGE_LIMIT));
    let rec = r.rec.clone();
    drop(sess);
    match r.outcome {
        Outcome::Returned => {}
        Outcome::Aborted(_) => return Err(RefError::EngineSearchTooLarge),
        Outcome::Crash(m) => return Err(RefError::EngineCrash(m)),
        Outcome::Exit(_) => return Err(RefError::EngineCrash("exit".into())),
    }
    let (total_reads, total_nodes) = rec.map(|r| (r.reads, r.nodes)).unwrap_or((0, 0));
    let mut m_root = vec![];
    for d in 0..=depth {
        m_root.push(bench.reference.value(&board, d)?);
    }
    let mut tree = vec![];
    enumerate_tree(&bench.reference.gen, &board, depth.saturating_sub(1), &mut tree, 0);
    bench.pos = Some(PosCtx {
        fen: fen.to_string(),
        depth,
        board,
        tree,
        m_root,
        hash_maps: HashMap::new(),
        total_reads,
        iter_marks: vec![],
        total_nodes,
        leaves: None,
        leaf_maps: HashMap::new(),
    });
    Ok(())
}

/// The key table an engine draws first in a simulated process with this key seed.
pub fn key_table_for(key_seed: u64) -> engine::zobrist::ZobristTable {
    let proc_ = Proc::start(SimState::new(key_seed, 0), None);
    let (_, z) = proc_.run(engine::zobrist::ZobristTable::new);
    z.expect("key table")
}

/// hash -> tree index for the key set that `key_seed` produces at the first draw.
pub fn hash_map_for(bench: &mut Bench, key_seed: u64) -> Rc<HashMap<u64, usize>> {
    let pos = bench.pos.as_mut().unwrap();
    if let Some(m) = pos.hash_maps.get(&key_seed) {
        return m.clone();
    }
    let z = key_table_for(key_seed);
    let mut m = HashMap::new();
    for (i, (b, _)) in pos.tree.iter().enumerate() {
        m.entry(z.hash(b)).or_insert(i);
    }
    let m = Rc::new(m);
    if pos.hash_maps.len() > 8 {
        pos.hash_maps.clear();
    }
    pos.hash_maps.insert(key_seed, m.clone());
    m
}

/// hash -> index into the horizon positions (ply == depth), built on first use.
pub fn leaf_map_for(bench: &mut Bench, key_seed: u64) -> Rc<HashMap<u64, usize>> {
    if bench.pos.as_ref().unwrap().leaves.is_none() {
        let (board, depth) = {
            let p = bench.pos.as_ref().unwrap();
            (p.board, p.depth)
        };
        let mut all = vec![];
        enumerate_tree(&bench.reference.gen, &board, depth, &mut all, 0);
        let leaves: Vec<Board> = all.into_iter().filter(|(_, ply)| *ply == depth).map(|(b, _)| b).collect();
        bench.pos.as_mut().unwrap().leaves = Some(leaves);
    }
    if let Some(m) = bench.pos.as_ref().unwrap().leaf_maps.get(&key_seed) {
        return m.clone();
    }
    // a key table of its own, drawn like the engine's first draw under this key seed: the
    // engine under test (bench.searcher) must not be touched here, this runs between the
    // interrupted and the completed search of a scenario
    let z = key_table_for(key_seed);
    let mut m = HashMap::new();
    for (i, b) in bench.pos.as_ref().unwrap().leaves.as_ref().unwrap().iter().enumerate() {
        m.entry(z.hash(b)).or_insert(i);
    }
    let m = Rc::new(m);
    let pos = bench.pos.as_mut().unwrap();
    if pos.leaf_maps.len() > 8 {
        pos.leaf_maps.clear();
    }
    pos.leaf_maps.insert(key_seed, m.clone());
    m
}

pub fn bound_name(b: Bounds) -> &'static str {
    match b {
        Bounds::Exact => "Exact",
        Bounds::Lower => "Lower",
        Bounds::Upper => "Upper",
    }
}

/// Audits every cached claim against M. Returns the first false claim, if any.
pub fn audit_tt(
    bench: &mut Bench,
    entries: &[Entry],
    hmap: &HashMap<u64, usize>,
    key_seed: u64,
    unauditable: &mut u64,
) -> Result<Option<String>, RefError> {
    for e in entries {
        let (q, ply) = match hmap.get(&e.hash_key) {
            Some(&idx) => bench.pos.as_ref().unwrap().tree[idx],
            None => {
                // not an interior node: a horizon position (an engine may cache those too),
                // or something beyond it, which this audit cannot judge and does not flag
                let lm = leaf_map_for(bench, key_seed);
                match lm.get(&e.hash_key) {
                    Some(&li) => {
                        let p = bench.pos.as_ref().unwrap();
                        (p.leaves.as_ref().unwrap()[li], p.depth)
                    }
                    None => {
                        *unauditable += 1;
                        continue;
                    }
                }
            }
        };
        if ply as u32 + e.depth as u32 > bench.pos.as_ref().unwrap().depth as u32 {
            // a claim deeper than anything the reference was sized for
            *unauditable += 1;
            continue;
        }
        let m = bench.reference.value(&q, e.depth)?;
        let v = norm(e.eval);
        let ok = match e.bounds {
            Bounds::Exact => v == m,
            Bounds::Lower => m >= v,
            Bounds::Upper => m <= v,
        };
        if !ok {
            return Ok(Some(format!(
                "false cached claim at ply {}: {} eval={} depth={} but M={} (move {})",
                ply,
                bound_name(e.bounds),
                e.eval,
                e.depth,
                m,
                move_str(&e.best_move)
            )));
        }
        if let Some(mv) = e.best_move {
            let legal = bench.reference.gen.generate_moves(&q);
            if !legal.iter().any(|l| *l == mv) {
                return Ok(Some(format!(
                    "cached best move {} is not legal in its position (ply {})",
                    mv.to_algebraic(),
                    ply
                )));
            }
        }
    }
    Ok(None)
}

/// Seeded sample of search positions (valid, at least one legal move).
pub fn sample_position(rng: &mut Rng) -> Pos {
    loop {
        let p = crate::gen::random_position(rng);
        if p.is_valid() && !p.legal_moves().is_empty() {
            return p;
        }
    }
}
