//! The simulator's own PRNG (splitmix64 seeding + xoshiro256**). Self-contained so
//! that one integer decides a run regardless of library versions.

#[derive(Clone, Debug)]
pub struct Rng {
    s: [u64; 4],
}

pub fn splitmix64(x: &mut u64) -> u64 {
    *x = x.wrapping_add(0x9E37_79B9_7F4A_7C15);
    let mut z = *x;
    z = (z ^ (z >> 30)).wrapping_mul(0xBF58_476D_1CE4_E5B9);
    z = (z ^ (z >> 27)).wrapping_mul(0x94D0_49BB_1331_11EB);
    z ^ (z >> 31)
}

/// FNV-1a, used for event-log hashes and for mixing strings into seeds.
pub fn fnv1a(init: u64, bytes: &[u8]) -> u64 {
    let mut h = init;
    for b in bytes {
        h ^= *b as u64;
        h = h.wrapping_mul(0x0000_0100_0000_01B3);
    }
    h
}
pub const FNV_INIT: u64 = 0xcbf2_9ce4_8422_2325;

/// Seed of sim `i` of check `check` in the batch decided by `batch_seed`.
pub fn derive(batch_seed: u64, check: &str, i: u64) -> u64 {
    let mut x = batch_seed ^ fnv1a(FNV_INIT, check.as_bytes()).rotate_left(17);
    let a = splitmix64(&mut x);
    let mut y = a ^ i.wrapping_mul(0xD6E8_FEB8_6659_FD93);
    splitmix64(&mut y)
}

impl Rng {
    pub fn new(seed: u64) -> Rng {
        let mut x = seed;
        let s = [
            splitmix64(&mut x),
            splitmix64(&mut x),
            splitmix64(&mut x),
            splitmix64(&mut x),
        ];
        Rng { s }
    }

    pub fn next_u64(&mut self) -> u64 {
        let result = self.s[1].wrapping_mul(5).rotate_left(7).wrapping_mul(9);
        let t = self.s[1] << 17;
        self.s[2] ^= self.s[0];
        self.s[3] ^= self.s[1];
        self.s[1] ^= self.s[2];
        self.s[0] ^= self.s[3];
        self.s[2] ^= t;
        self.s[3] = self.s[3].rotate_left(45);
        result
    }

    /// Uniform in 0..n (n > 0).
    pub fn below(&mut self, n: u64) -> u64 {
        debug_assert!(n > 0);
        // Multiply-shift; bias is negligible for the n used here.
        ((self.next_u64() as u128 * n as u128) >> 64) as u64
    }

    /// Uniform in lo..=hi.
    pub fn range(&mut self, lo: u64, hi: u64) -> u64 {
        lo + self.below(hi - lo + 1)
    }

    pub fn usize_below(&mut self, n: usize) -> usize {
        self.below(n as u64) as usize
    }

    /// True with probability num/den.
    pub fn chance(&mut self, num: u64, den: u64) -> bool {
        self.below(den) < num
    }

    pub fn pick<'a, T>(&mut self, v: &'a [T]) -> &'a T {
        &v[self.usize_below(v.len())]
    }

    pub fn shuffle<T>(&mut self, v: &mut [T]) {
        for i in (1..v.len()).rev() {
            let j = self.usize_below(i + 1);
            v.swap(i, j);
        }
    }

    /// Log-uniform integer in lo..=hi (lo >= 1).
    pub fn log_range(&mut self, lo: u64, hi: u64) -> u64 {
        let l = (lo as f64).ln();
        let h = (hi as f64).ln();
        let u = (self.next_u64() >> 11) as f64 / (1u64 << 53) as f64;
        let v = (l + u * (h - l)).exp().round() as u64;
        v.clamp(lo, hi)
    }

    pub fn fork(&mut self) -> Rng {
        Rng::new(self.next_u64())
    }
}
