//! C12 — thinking time comes from the mover's own clock and fits in it.
//! World U: a simulated match with two chess clocks in virtual time. Observation point:
//! the budget the real `go` handler arms on the real timer (timer-start notification),
//! so token parsing and allocation are the shipped code.

use crate::common::*;
use crate::gen;
use crate::rng::{derive, Rng};
use crate::rules::*;
use crate::simworld::*;
use crate::usession::*;
use serde_json::{json, Value};
use std::cell::RefCell;
use std::rc::Rc;

#[derive(Clone, Debug)]
pub struct Scenario {
    pub lines: Vec<String>,
    /// pairs of line indices whose go commands must arm the same budget
    pub twins: Vec<(usize, usize)>,
    pub key_seed: u64,
    /// Some(j): every search expires at its read j; None: cost model
    pub forced_all: Option<u64>,
    pub cost_node_ns: u64,
    /// Some(i): the go at line i must arm the same budget as in a fresh process
    pub fresh_of: Option<usize>,
    /// (global clock read index, jump in ns): the process was descheduled there; and what one
    /// clock read costs. Time passes outside the searches too (while a position command is
    /// handled, between go and the arming of the timer): none of it is the budget's business
    pub stalls: Vec<(u64, u64)>,
    pub cost_read_ns: u64,
}

impl Scenario {
    pub fn to_json(&self) -> Value {
        json!({"lines": self.lines, "twins": self.twins.iter().map(|(a, b)| json!([a, b])).collect::<Vec<_>>(),
            "key_seed": self.key_seed, "forced_all": self.forced_all, "cost_node_ns": self.cost_node_ns, "fresh_of": self.fresh_of,
            "stalls": self.stalls.iter().map(|(a, b)| json!([a, b])).collect::<Vec<_>>(), "cost_read_ns": self.cost_read_ns})
    }
    pub fn from_json(v: &Value) -> Option<Scenario> {
        Some(Scenario {
            lines: v["lines"].as_array()?.iter().map(|x| x.as_str().unwrap_or("").to_string()).collect(),
            twins: v["twins"]
                .as_array()
                .map(|a| a.iter().filter_map(|p| Some((p[0].as_u64()? as usize, p[1].as_u64()? as usize))).collect())
                .unwrap_or_default(),
            key_seed: v["key_seed"].as_u64().unwrap_or(0),
            forced_all: v["forced_all"].as_u64(),
            cost_node_ns: v["cost_node_ns"].as_u64().unwrap_or(0),
            fresh_of: v["fresh_of"].as_u64().map(|x| x as usize),
            stalls: v["stalls"].as_array().map(|a| a.iter().filter_map(|p| Some((p[0].as_u64()?, p[1].as_u64()?))).collect()).unwrap_or_default(),
            cost_read_ns: v["cost_read_ns"].as_u64().unwrap_or(0),
        })
    }
    fn sim_state(&self) -> SimState {
        let mut st = SimState::new(self.key_seed, 0);
        st.clock.forced_all = self.forced_all;
        st.clock.cost_node_ns = self.cost_node_ns;
        st.clock.cost_read_ns = self.cost_read_ns;
        st.clock.stalls = self.stalls.clone();
        st.max_nodes_per_search = 3_000_000;
        st.ev(&format!("cfg c12 key_seed={} forced_all={:?} cost_node={}", self.key_seed, self.forced_all, self.cost_node_ns));
        st
    }
}

/// The oracle's reading of the clock tokens of a go line.
#[derive(Debug, Clone, Default, PartialEq)]
pub struct Clocks {
    pub wtime: Option<u64>,
    pub btime: Option<u64>,
    pub winc: Option<u64>,
    pub binc: Option<u64>,
}

pub fn parse_clocks(line: &str) -> Clocks {
    let t: Vec<&str> = line.split_whitespace().collect();
    let mut c = Clocks::default();
    let mut i = 1;
    while i + 1 < t.len() {
        let v = t[i + 1].parse::<u64>().ok();
        match t[i] {
            "wtime" => c.wtime = v,
            "btime" => c.btime = v,
            "winc" => c.winc = v,
            "binc" => c.binc = v,
            _ => {
                i += 1;
                continue;
            }
        }
        i += 2;
    }
    c
}

pub struct Judged {
    pub violations: Vec<(String, String)>,
    pub probes: Counters,
    pub gos: u64,
    pub distinct: Vec<u64>,
}

pub fn judge(sc: &Scenario, rep: &LoopReport) -> Judged {
    let mut j = Judged {
        violations: vec![],
        probes: Counters::default(),
        gos: 0,
        distinct: vec![],
    };
    let st = rep.st.borrow();
    let mut pos = Pos::startpos();
    // budget armed per line index
    let mut armed: Vec<Option<Option<std::time::Duration>>> = vec![None; rep.exchanges.len()];
    for (xi, x) in rep.exchanges.iter().enumerate() {
        let tok = x.line.split_whitespace().next().unwrap_or("");
        match tok {
            "ucinewgame" => pos = Pos::startpos(),
            "position" => {
                if let Some((p, _)) = interpret_position(&x.line) {
                    pos = p;
                }
            }
            "go" => {
                let c = parse_clocks(&x.line);
                if c.wtime.is_none() && c.btime.is_none() {
                    continue;
                }
                j.gos += 1;
                let Some(rec) = x.search_ordinal.and_then(|o| st.searches.get(o)) else {
                    j.violations.push(("no_search_started".into(), format!("'{}' did not arm the timer", x.line)));
                    continue;
                };
                armed[xi] = Some(rec.limit);
                let (rem, inc) = if pos.white_to_move { (c.wtime.unwrap_or(0), c.winc.unwrap_or(0)) } else { (c.btime.unwrap_or(0), c.binc.unwrap_or(0)) };
                let side = if pos.white_to_move { "white" } else { "black" };
                if !pos.white_to_move {
                    j.probes.add("black_to_move", 1);
                }
                if inc > rem {
                    j.probes.add("inc_gt_remaining", 1);
                }
                if rem <= 5000 {
                    j.probes.add("rem_le_reserve", 1);
                }
                if rem == 0 {
                    j.probes.add("rem_zero", 1);
                }
                if x.line.contains("movestogo") {
                    j.probes.add("go_with_movestogo", 1);
                }
                if x.line.contains("depth") {
                    j.probes.add("go_with_depth_cap_next_to_the_clocks", 1);
                }
                if x.line.contains("searchmoves") {
                    j.probes.add("go_with_searchmoves", 1);
                }
                {
                    // another parameter pair between two clock pairs
                    let t: Vec<&str> = x.line.split_whitespace().collect();
                    let is_clock = |s: &str| ["wtime", "btime", "winc", "binc"].contains(&s);
                    let first = t.iter().position(|s| is_clock(s));
                    let last = t.iter().rposition(|s| is_clock(s));
                    if let (Some(a), Some(b)) = (first, last) {
                        if t[a..b].iter().any(|s| ["movestogo", "depth", "nodes"].contains(s)) {
                            j.probes.add("go_with_other_parameters_between_the_clock_pairs", 1);
                        }
                    }
                }
                j.distinct.push(hash_str(&format!("{}|{}|{}|{}", side, rem, inc, x.line.split_whitespace().filter(|t| t.ends_with("time") || t.ends_with("inc")).collect::<Vec<_>>().join(","))));
                // the clock as the GUI sees it: virtual time from the go to its bestmove must fit
                // in the mover's remaining time (plus what C07 allows a search to overrun its
                // own deadline: 4096 nodes and a few clock reads). Only in sims whose searches
                // really run (cost model, no forced expiry) and that were not cut by the step cap.
                if sc.forced_all.is_none() && x.ns_after > 0 && x.output.iter().any(|l| l.starts_with("bestmove")) {
                    let think_ns = x.ns_after.saturating_sub(x.ns_before) as u128;
                    let allowance = crate::c07::B as u128 * sc.cost_node_ns as u128 + 1_000_000;
                    j.probes.add("think_times_measured", 1);
                    if rec.deadline_passed_at.is_some() {
                        j.probes.add("think_times_measured_on_searches_stopped_by_the_clock", 1);
                        j.probes.max("max_nodes_in_a_clock_stopped_search", rec.nodes);
                    }
                    if think_ns > rem as u128 * 1_000_000 + allowance {
                        j.violations.push((
                            "think_time_exceeds_remaining".into(),
                            format!("'{}': {} to move has {} ms (+{} inc), budget armed {:?} ms, but bestmove came after {} ms of virtual time ({} nodes)", x.line, side, rem, inc, rec.limit.map(|l| l.as_millis()), think_ns / 1_000_000, rec.nodes),
                        ));
                    }
                }
                match rec.limit {
                    None => j.violations.push((
                        "no_budget".into(),
                        format!("'{}' ({} to move, {} ms left): search armed without a time limit", x.line, side, rem),
                    )),
                    Some(l) => {
                        let l_ns = l.as_nanos();
                        let rem_ns = rem as u128 * 1_000_000;
                        if l_ns > rem_ns {
                            j.violations.push((
                                "budget_exceeds_remaining".into(),
                                format!("'{}': {} to move has {} ms (+{} inc) but the budget is {} ms", x.line, side, rem, inc, l.as_millis()),
                            ));
                        } else if rem > 0 && l_ns >= rem_ns {
                            j.violations.push((
                                "budget_equals_remaining".into(),
                                format!("'{}': {} to move has {} ms and the budget is all of it ({} ms)", x.line, side, rem, l.as_millis()),
                            ));
                        }
                    }
                }
            }
            _ => {}
        }
    }
    for (a, b) in &sc.twins {
        if let (Some(Some(la)), Some(Some(lb))) = (armed.get(*a), armed.get(*b)) {
            j.probes.add("opponent_clock_perturbed", 1);
            if la != lb {
                j.violations.push((
                    "budget_depends_on_opponent_or_order".into(),
                    format!("'{}' armed {:?} but '{}' (same mover clock, other opponent values / token order) armed {:?}", rep.exchanges[*a].line, la, rep.exchanges[*b].line, lb),
                ));
            }
        }
    }
    // explicit form of the history-independence comparison (replay files)
    if let Some(gi) = sc.fresh_of {
        if let Some(pos_i) = (0..gi.min(rep.exchanges.len())).rev().find(|&k| rep.exchanges[k].line.starts_with("position")) {
            if gi < rep.exchanges.len() {
                let fresh = Scenario {
                    lines: vec![rep.exchanges[pos_i].line.clone(), rep.exchanges[gi].line.clone(), "quit".into()],
                    twins: vec![],
                    key_seed: sc.key_seed,
                    forced_all: sc.forced_all,
                    cost_node_ns: sc.cost_node_ns,
                    fresh_of: None,
                    stalls: vec![],
                    cost_read_ns: sc.cost_read_ns,
                };
                let rep_f = run_explicit(&fresh);
                let lf = armed_budgets(&rep_f).get(1).cloned().flatten();
                drop(st);
                let ls = armed_budgets(rep).get(gi).cloned().flatten();
                if lf != ls {
                    j.violations.push((
                        "budget_depends_on_earlier_commands".into(),
                        format!("'{}' after '{}' armed {:?} in this session but {:?} in a fresh process", rep.exchanges[gi].line, rep.exchanges[pos_i].line, ls, lf),
                    ));
                }
                match &rep.outcome {
                    Outcome::Crash(m) => j.violations.push(("crash".into(), m.clone())),
                    _ => {}
                }
                return j;
            }
        }
    }
    match &rep.outcome {
        Outcome::Crash(m) => j.violations.push(("crash".into(), m.clone())),
        _ => {}
    }
    j
}

fn clock_value(rng: &mut Rng) -> u64 {
    match rng.below(8) {
        0 => 0,
        1 => 1,
        2 => rng.range(2, 4999),
        3 => rng.range(4990, 5010),
        4 => rng.range(5001, 60_000),
        5 => rng.range(60_000, 600_000),
        6 => rng.range(600_000, 7_200_000),
        _ => rng.range(0, 20_000),
    }
}
fn inc_value(rng: &mut Rng, rem: u64) -> u64 {
    match rng.below(6) {
        0 | 1 => 0,
        2 => rng.range(1, 100),
        3 => rng.range(100, 30_000),
        4 => rem + rng.range(1, 5000), // larger than the remaining time
        _ => rem,
    }
}

/// `movestogo` is part of what a GUI sends along with the clocks; it is put before or after
/// the clock tokens (never between them) and twins carry the same value.
/// A depth cap next to the clocks (what a GUI sends when both a time control and a depth
/// limit are set): before the clock tokens or after all of them. The budget is still due.
fn with_depth(rng: &mut Rng, line: String, depth: Option<u64>) -> String {
    match depth {
        None => line,
        Some(d) => {
            if rng.chance(1, 2) {
                format!("{} depth {}", line, d)
            } else {
                format!("go depth {}{}", d, &line[2..])
            }
        }
    }
}

fn with_movestogo(rng: &mut Rng, line: String, mtg: Option<u64>) -> String {
    match mtg {
        None => line,
        Some(n) => {
            if rng.chance(1, 2) {
                format!("{} movestogo {}", line, n)
            } else {
                format!("go movestogo {}{}", n, &line[2..])
            }
        }
    }
}

/// A go whose four clock pairs are interleaved with other parameter pairs a GUI may send
/// (`movestogo`, a far `depth` cap, `nodes`), at least one of them between two clock pairs,
/// optionally with a `searchmoves` list in front or behind. Returns the line and its twin:
/// the same token layout with the opponent's clock and increment replaced.
fn interleaved_go(rng: &mut Rng, pos: &Pos, rem: u64, inc: u64, orem: (u64, u64), oinc: (u64, u64)) -> (String, String) {
    let mut order = vec!["wtime", "btime", "winc", "binc"];
    rng.shuffle(&mut order);
    // layout: list of (token, which value)
    let mut layout: Vec<(String, String)> = order.iter().map(|k| (k.to_string(), String::new())).collect();
    let n_extra = rng.range(1, 2);
    for e in 0..n_extra {
        let (k, v) = match rng.below(3) {
            0 => ("movestogo", rng.pick(&[1u64, 5, 24, 40]).to_string()),
            1 => ("depth", rng.pick(&[30u64, 64]).to_string()),
            _ => ("nodes", "100000000".to_string()),
        };
        // the first extra pair strictly between two clock pairs
        let at = if e == 0 { rng.range(1, 3) as usize } else { rng.usize_below(layout.len() + 1) };
        layout.insert(at, (k.to_string(), v));
    }
    let sm = if rng.chance(1, 4) { searchmoves_list(rng, pos) } else { String::new() };
    let sm_front = rng.chance(1, 2);
    let render = |orem: u64, oinc: u64| -> String {
        let (w, b, wi, bi) = if pos.white_to_move { (rem, orem, inc, oinc) } else { (orem, rem, oinc, inc) };
        let mut s = "go".to_string();
        if !sm.is_empty() && sm_front {
            s.push_str(&format!(" searchmoves {}", sm));
        }
        for (k, v) in &layout {
            let v = match k.as_str() {
                "wtime" => w.to_string(),
                "btime" => b.to_string(),
                "winc" => wi.to_string(),
                "binc" => bi.to_string(),
                _ => v.clone(),
            };
            s.push_str(&format!(" {} {}", k, v));
        }
        if !sm.is_empty() && !sm_front {
            s.push_str(&format!(" searchmoves {}", sm));
        }
        s
    };
    (render(orem.0, oinc.0), render(orem.1, oinc.1))
}

/// Two to five legal moves of `pos` in UCI notation (a `searchmoves` list).
fn searchmoves_list(rng: &mut Rng, pos: &Pos) -> String {
    let mut ms = gen::moves_uci(&pos.legal_moves());
    rng.shuffle(&mut ms);
    let n = (rng.range(2, 5) as usize).min(ms.len());
    ms[..n].join(" ")
}

fn go_line(rng: &mut Rng, white_to_move: bool, rem: u64, inc: u64, orem: u64, oinc: u64, with_inc: bool) -> String {
    let (w, b, wi, bi) = if white_to_move { (rem, orem, inc, oinc) } else { (orem, rem, oinc, inc) };
    let mut toks = vec![("wtime", w), ("btime", b)];
    if with_inc {
        toks.push(("winc", wi));
        toks.push(("binc", bi));
    }
    rng.shuffle(&mut toks);
    let mut s = "go".to_string();
    // one go in thirty writes its numbers with leading zeros (up to 24 digits): the same values
    let pad = if rng.chance(1, 30) { rng.range(1, 24) as usize } else { 0 };
    for (k, v) in toks {
        if pad > 0 {
            s.push_str(&format!(" {} {:0>width$}", k, v, width = pad));
        } else {
            s.push_str(&format!(" {} {}", k, v));
        }
    }
    s
}

pub fn generate(seed: u64, long: bool) -> Scenario {
    let mut rng = Rng::new(seed);
    if long {
        return generate_long(&mut rng);
    }
    let forced = if rng.chance(4, 5) { Some(1) } else { None };
    let mut sc = Scenario {
        lines: vec![],
        twins: vec![],
        key_seed: rng.next_u64(),
        forced_all: forced,
        cost_node_ns: if forced.is_some() { 0 } else { rng.log_range(200_000, 5_000_000) },
        fresh_of: None,
        stalls: vec![],
        cost_read_ns: 0,
    };
    // in a third of the budget-only sims time also passes outside the searches: clock reads
    // cost up to 5 ms each and the process is descheduled for 1 ms - 3 s at a few early reads
    if forced.is_some() && rng.chance(1, 3) {
        sc.cost_read_ns = rng.log_range(1_000, 5_000_000);
        for _ in 0..rng.range(1, 4) {
            sc.stalls.push((rng.range(1, 60), rng.log_range(1_000_000, 3_000_000_000)));
        }
    }
    // a game on the rules model (the engine's answers are not needed for this property:
    // the allocation depends on the position only through the side to move)
    let start = if rng.chance(1, 2) { Pos::startpos() } else { let p = gen::random_position(&mut rng); if p.is_valid() && !p.legal_moves().is_empty() { p } else { Pos::startpos() } };
    let root = if start == Pos::startpos() { "startpos".to_string() } else { format!("fen {}", crate::sworld::fen_for_search(&start)) };
    let plies = rng.range(1, 14) as usize;
    let (moves, positions) = gen::playout(&mut rng, &start, plies, 1);
    let mut clocks = [clock_value(&mut rng), clock_value(&mut rng)]; // white, black
    let incs = {
        let a = inc_value(&mut rng, clocks[0]);
        let b = inc_value(&mut rng, clocks[1]);
        [a, b]
    };
    let with_inc = rng.chance(3, 4);
    if rng.chance(1, 2) {
        sc.lines.push("ucinewgame".into());
    }
    for (k, p) in positions.iter().enumerate() {
        if p.legal_moves().is_empty() {
            break;
        }
        let mut l = format!("position {}", root);
        if k > 0 {
            l.push_str(" moves ");
            l.push_str(&gen::moves_uci(&moves[..k]).join(" "));
        }
        sc.lines.push(l);
        let me = if p.white_to_move { 0 } else { 1 };
        // now and then a go of an increment game leaves the increments out (or a sudden-death
        // game sends them): what an earlier go said must not carry over
        let with_inc = if rng.chance(1, 6) { !with_inc } else { with_inc };
        let (rem, inc) = (clocks[me], if with_inc { incs[me] } else { 0 });
        let (orem, oinc) = (clocks[1 - me], incs[1 - me]);
        // one go in six also says how many moves remain to the next time control
        let mtg = if with_inc && rng.chance(1, 6) { Some(*rng.pick(&[1u64, 1, 2, 3, 5, 10, 24, 25, 40])) } else { None };
        // one go in seven has its clock pairs interleaved with other parameter pairs (and
        // sometimes a searchmoves list): a budget is still due and must fit the clock; its
        // twin keeps the layout and replaces the opponent's values
        if with_inc && rng.chance(1, 7) {
            let orem2 = clock_value(&mut rng);
            let oinc2 = rng.range(0, 60_000);
            let (first, twin) = interleaved_go(&mut rng, p, rem, inc, (orem, orem2), (oinc, oinc2));
            sc.lines.push(first);
            let a = sc.lines.len() - 1;
            sc.lines.push(twin);
            sc.twins.push((a, sc.lines.len() - 1));
            let spent = if clocks[me] == 0 { 0 } else { rng.range(0, clocks[me]) };
            clocks[me] = clocks[me] - spent + incs[me];
            continue;
        }
        let first = go_line(&mut rng, p.white_to_move, rem, inc, orem, oinc, with_inc);
        let first = with_movestogo(&mut rng, first, mtg);
        // one go in eight also carries a depth cap (small, or far beyond the budget)
        let dcap = if rng.chance(1, 8) { Some(*rng.pick(&[1u64, 2, 3, 30, 64])) } else { None };
        let first = with_depth(&mut rng, first, dcap);
        // one go in ten restricts the search to a few moves (before or after the clocks)
        let sm = if rng.chance(1, 10) { Some((searchmoves_list(&mut rng, p), rng.chance(1, 2))) } else { None };
        let with_sm = |l: String| -> String {
            match &sm {
                None => l,
                Some((list, true)) => format!("go searchmoves {}{}", list, &l[2..]),
                Some((list, false)) => format!("{} searchmoves {}", l, list),
            }
        };
        let first = with_sm(first);
        sc.lines.push(first);
        let a = sc.lines.len() - 1;
        // twin: opponent's clock and increment replaced, tokens permuted again
        if forced.is_some() || rng.chance(1, 3) {
            let orem2 = clock_value(&mut rng);
            let oinc2 = rng.range(0, 60_000);
            let twin = go_line(&mut rng, p.white_to_move, rem, inc, orem2, oinc2, with_inc);
            let twin = with_movestogo(&mut rng, twin, mtg);
            let twin = with_depth(&mut rng, twin, dcap);
            let twin = with_sm(twin);
            sc.lines.push(twin);
            sc.twins.push((a, sc.lines.len() - 1));
        }
        // the match goes on: the mover spends part of its clock and gets the increment
        let spent = if clocks[me] == 0 { 0 } else { rng.range(0, clocks[me]) };
        clocks[me] = clocks[me] - spent + if with_inc { incs[me] } else { 0 };
        if rng.chance(1, 10) {
            clocks[me] = clock_value(&mut rng);
        }
    }
    sc.lines.push("quit".into());
    sc
}

/// A few clocked moves whose searches really run for 10^5..10^6 nodes (1-5 us per node):
/// what the engine does with its budget *during* a long think (extending it, re-arming it)
/// shows only in the time at which the answer comes.
fn generate_long(rng: &mut Rng) -> Scenario {
    let mut sc = Scenario {
        lines: vec![],
        twins: vec![],
        key_seed: rng.next_u64(),
        forced_all: None,
        cost_node_ns: rng.log_range(1_000, 5_000),
        fresh_of: None,
        stalls: vec![],
        cost_read_ns: 0,
    };
    let start = loop {
        let p = gen::random_position(rng);
        if p.is_valid() && p.legal_moves().len() >= 8 && p.piece_count() >= 12 {
            break p;
        }
    };
    let root = format!("fen {}", crate::sworld::fen_for_search(&start));
    let plies = rng.range(1, 3) as usize;
    let (moves, positions) = gen::playout(rng, &start, plies, 1);
    if rng.chance(1, 2) {
        sc.lines.push("ucinewgame".into());
    }
    for (k, p) in positions.iter().enumerate() {
        if p.legal_moves().is_empty() {
            break;
        }
        let mut l = format!("position {}", root);
        if k > 0 {
            l.push_str(" moves ");
            l.push_str(&gen::moves_uci(&moves[..k]).join(" "));
        }
        sc.lines.push(l);
        // a time scramble with an increment (budget close to the whole clock), or a
        // comfortable clock without one
        let (rem, inc, with_inc) = if rng.chance(2, 3) {
            let rem = rng.range(200, 2_500);
            (rem, rem + rng.range(0, rem), true)
        } else {
            (rng.range(10_000, 50_000), 0, rng.chance(1, 2))
        };
        let orem = clock_value(rng);
        let oinc = rng.range(0, 5_000);
        let l = go_line(rng, p.white_to_move, rem, inc, orem, oinc, with_inc);
        // a third of them restrict the search to a few moves: however the engine organises
        // that, the answer is due within the mover's clock
        let l = if rng.chance(1, 3) {
            let list = searchmoves_list(rng, p);
            if rng.chance(1, 2) { format!("go searchmoves {}{}", list, &l[2..]) } else { format!("{} searchmoves {}", l, list) }
        } else {
            l
        };
        sc.lines.push(l);
    }
    sc.lines.push("quit".into());
    sc
}

/// Budgets armed per exchange index (None where no clocked go / no search).
fn armed_budgets(rep: &LoopReport) -> Vec<Option<Option<std::time::Duration>>> {
    let st = rep.st.borrow();
    rep.exchanges
        .iter()
        .map(|x| {
            if x.line.starts_with("go") && (x.line.contains("wtime") || x.line.contains("btime")) {
                x.search_ordinal.and_then(|o| st.searches.get(o)).map(|r| r.limit)
            } else {
                None
            }
        })
        .collect()
}

/// Some(None): compared, equal. Some(Some(..)): differs; the returned scenario (the session
/// up to that go, then quit) shows it through the `fresh` marker judged in `judge`.
fn history_independence(sc: &Scenario, rep: &LoopReport, seed: u64) -> Option<Option<(String, String, Scenario)>> {
    let armed = armed_budgets(rep);
    let gos: Vec<usize> = (0..armed.len()).filter(|&i| armed[i].is_some()).collect();
    // a go that is not the first clocked go of the session (so that there is a history)
    if gos.len() < 2 {
        return None;
    }
    let mut rng = Rng::new(seed ^ 0x5eed);
    let gi = gos[1 + rng.usize_below(gos.len() - 1)];
    let pos_i = (0..gi).rev().find(|&k| rep.exchanges[k].line.starts_with("position"))?;
    let fresh = Scenario {
        lines: vec![rep.exchanges[pos_i].line.clone(), rep.exchanges[gi].line.clone(), "quit".into()],
        twins: vec![],
        key_seed: sc.key_seed,
        forced_all: sc.forced_all,
        cost_node_ns: sc.cost_node_ns,
        fresh_of: None,
        stalls: vec![],
        cost_read_ns: sc.cost_read_ns,
    };
    let rep_f = run_explicit(&fresh);
    let armed_f = armed_budgets(&rep_f);
    let lf = armed_f.get(1).cloned().flatten();
    let ls = armed[gi];
    if lf == ls {
        return Some(None);
    }
    // explicit scenario: the session up to and including that go; `fresh_of` asks the judge
    // to compare its last clocked go with a fresh process
    let mut lines: Vec<String> = rep.exchanges[..=gi].iter().map(|x| x.line.clone()).collect();
    lines.push("quit".into());
    let sc2 = Scenario { lines, twins: vec![], key_seed: sc.key_seed, forced_all: sc.forced_all, cost_node_ns: sc.cost_node_ns, fresh_of: Some(gi), stalls: sc.stalls.clone(), cost_read_ns: sc.cost_read_ns };
    Some(Some((
        "budget_depends_on_earlier_commands".into(),
        format!("'{}' after '{}' armed {:?} in this session but {:?} in a fresh process", rep.exchanges[gi].line, rep.exchanges[pos_i].line, ls, lf),
        sc2,
    )))
}

pub fn run_explicit(sc: &Scenario) -> LoopReport {
    run_script(sc.sim_state(), sc.lines.clone())
}

fn violations_of(sc: &Scenario, rep: &LoopReport, j: &Judged, i: u64, seed: u64) -> Vec<Violation> {
    let h = rep.st.borrow().log_hash;
    j.violations
        .iter()
        .map(|(c, d)| Violation {
            prop: "C12".into(),
            class: c.clone(),
            detail: d.clone(),
            scenario: sc.to_json(),
            sim_index: i,
            sim_seed: seed,
            log_hash: h,
        })
        .collect()
}

pub fn replay_value(v: &Value) -> Vec<Violation> {
    let Some(sc) = Scenario::from_json(v) else { return vec![] };
    let rep = run_explicit(&sc);
    let j = judge(&sc, &rep);
    violations_of(&sc, &rep, &j, 0, 0)
}

pub fn shrink_value(v: &Value) -> Vec<Value> {
    let Some(sc) = Scenario::from_json(v) else { return vec![] };
    let mut out = vec![];
    let n = sc.lines.len();
    let remove = |sc: &Scenario, i: usize| -> Scenario {
        let mut a = sc.clone();
        a.lines.remove(i);
        a.twins = sc
            .twins
            .iter()
            .filter(|(x, y)| *x != i && *y != i)
            .map(|(x, y)| (if *x > i { x - 1 } else { *x }, if *y > i { y - 1 } else { *y }))
            .collect();
        a
    };
    // drop prefixes: find go lines and keep only the last position before them
    for i in 0..n {
        out.push(remove(&sc, i).to_json());
    }
    for i in 0..n {
        if sc.lines[i].starts_with("position") && sc.lines[i].contains(" moves ") {
            if let Some((p, _)) = interpret_position(&sc.lines[i]) {
                let mut a = sc.clone();
                a.lines[i] = format!("position fen {}", crate::sworld::fen_for_search(&p));
                out.push(a.to_json());
            }
        }
        if sc.lines[i].starts_with("go ") {
            // round the numbers
            let toks: Vec<String> = sc.lines[i].split_whitespace().map(|s| s.to_string()).collect();
            for k in 0..toks.len() {
                if let Ok(v) = toks[k].parse::<u64>() {
                    for c in [0u64, 1, 1000, v / 2, v - v % 1000] {
                        if c < v {
                            let mut t = toks.clone();
                            t[k] = c.to_string();
                            let mut a = sc.clone();
                            a.lines[i] = t.join(" ");
                            out.push(a.to_json());
                        }
                    }
                }
            }
        }
    }
    if sc.forced_all.is_none() {
        let mut a = sc.clone();
        a.forced_all = Some(1);
        a.cost_node_ns = 0;
        out.push(a.to_json());
    }
    if sc.key_seed != 0 {
        let mut a = sc.clone();
        a.key_seed = 0;
        out.push(a.to_json());
    }
    out
}

pub fn run(ctx: &Ctx) -> i32 {
    let sims = ctx.n(1200, 24000);
    let orders: Rc<RefCell<()>> = Rc::new(RefCell::new(()));
    let _ = orders;
    let rep = run_batch(sims, ctx.workers, |i| {
        let seed = derive(ctx.seed, "C12", i);
        // one sim in twenty thinks long (hundreds of thousands of nodes per move)
        let long = i % 20 == 11;
        let sc = generate(seed, long);
        let rep = run_explicit(&sc);
        let j = judge(&sc, &rep);
        let mut res = SimResult::default();
        res.evaluations = j.gos;
        res.distinct = j.distinct.clone();
        res.probes.merge(&j.probes);
        {
            let st = rep.st.borrow();
            res.sim_time_ns = st.now_ns - 1_000_000_000;
            res.log_hash = st.log_hash;
            res.faults.add("forced_expiry", st.faults.forced_expiry);
            res.faults.add("zero_budget", st.faults.zero_budget);
            res.faults.add("deadline_expired_mid_search", st.searches.iter().filter(|s| s.deadline_passed_at.is_some()).count() as u64);
        }
        // token orders seen
        for l in &sc.lines {
            if l.starts_with("go ") {
                let order: Vec<&str> = l.split_whitespace().filter(|t| t.ends_with("time") || t.ends_with("inc")).collect();
                if order.len() == 4 {
                    res.distinct.push(hash_str(&format!("order:{}", order.join(","))));
                }
            }
        }
        if long {
            res.probes.add("long_think_sims", 1);
            if matches!(rep.outcome, Outcome::Aborted(_)) {
                res.probes.add("long_think_sims_cut_by_step_cap", 1);
            }
        }
        res.violations = violations_of(&sc, &rep, &j, i, seed);
        // history independence: one clocked go of the session, with its position command,
        // in a fresh process must arm the same budget (the allocation depends on the mover's
        // clock and increment given in THIS go, not on earlier commands)
        if res.violations.is_empty() && sc.forced_all.is_some() {
            if let Some(v) = history_independence(&sc, &rep, seed) {
                res.probes.add("budgets_compared_with_a_fresh_process", 1);
                if let Some((class, detail, sc2)) = v {
                    let rep2 = run_explicit(&sc2);
                    let h2 = rep2.st.borrow().log_hash;
                    res.violations.push(Violation { prop: "C12".into(), class, detail, scenario: sc2.to_json(), sim_index: i, sim_seed: seed, log_hash: h2 });
                }
            }
        }
        if i < 3 {
            res.sample = Some(json!({"lines": sc.lines.iter().take(6).collect::<Vec<_>>(), "commands": sc.lines.len(), "twins": sc.twins.len(), "forced_all": sc.forced_all}));
        }
        res
    });
    let ev = Evidence {
        level: "exploration",
        rule: "One sim = one simulated match fragment (1-14 plies from startpos or a playout FEN, both colours to move): per ply `position ... moves ...` and `go wtime W btime B [winc I binc J]` with the tokens in a seeded order (one go in six also carries `movestogo n`, one in eight a `depth` cap, before or after them), clock values from 0 / 1 ms / below the 5 s reserve / around it / seconds / minutes / hours, increments 0 / small / large / equal to or larger than the remaining time; the mover's clock is then debited and credited like a GUI does. Most sims let every search expire at its first clock read (the budget is observed where the real go handler arms the real timer, so the search itself is irrelevant); one in five runs real searches under a cost model, and one sim in twenty lets the engine think long (1-5 us per node, budgets of 0.2-2.5 s: 10^5..10^6 nodes per move, time scrambles with a large increment or comfortable clocks), where additionally the virtual time from go to bestmove must not exceed the mover's remaining time by more than the overrun C07 allows (4096 nodes). Each go is followed by a twin with the opponent's clock and increment replaced and the tokens permuted. For one clocked go per session (not the first) the same position and go in a fresh process must arm the same budget (history independence; gos of one game sometimes leave the increments out). Oracle: a budget is armed; budget <= mover's remaining time; < when any time remains; twin arms the same budget; in sims whose searches really run, bestmove comes within the mover's remaining time. Evaluations = clocked go commands judged; distinct by (side, remaining, increment, token order). One go in seven has its four clock pairs interleaved with movestogo / depth / nodes pairs (its twin keeps the layout and replaces the opponent's values); one in ten (one in three of the long-think sims) carries a searchmoves list before or after the clocks. One go in thirty writes its numbers with leading zeros; in a third of the budget-only sims clock reads cost up to 5 ms and the process is descheduled for 1 ms-3 s at a few early reads.".into(),
        extra: serde_json::Map::new(),
        assumptions: vec!["the oracle reads wtime/btime/winc/binc as 'token followed by its value, in any order'; nothing is asserted about the allocation formula".into()],
        exhaustive: None,
    };
    conclude(ctx, &rep, ev, &replay_value, &shrink_value)
}

pub fn replay(path: &std::path::Path) -> i32 {
    let doc: Value = read_replay(path);
    let vs = replay_value(&doc["scenario"]);
    conclude_replay("C12", &vs, doc["class"].as_str())
}
