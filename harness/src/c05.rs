//! C05 — pruning, move ordering and caching never change the search value.
//! World S, exploration. Simulation content: key draws (randomness seam) and a buggified
//! cache (probe pretends to miss, store is refused) — legal behaviours of a cache that
//! must change cost only. The positions themselves are sampled inputs.

use crate::common::*;
use crate::gen;
use crate::refsearch::*;
use crate::rng::{derive, fnv1a, Rng, FNV_INIT};
use crate::simworld::*;
use crate::sworld::*;
use serde_json::{json, Value};

#[derive(Clone, Debug)]
pub struct Scenario {
    pub fen: String,
    pub depth: u8,
    /// false: find_best_move (iterative deepening); true: one fixed-depth search
    pub fixed: bool,
    pub key_seed: u64,
    pub fault_seed: u64,
    pub miss_permille: u32,
    pub drop_permille: u32,
    /// explicit fault decisions (site, hit index); overrides the rates
    pub explicit: Option<Vec<(u8, u64)>>,
    pub really_new: bool,
}

impl Scenario {
    pub fn to_json(&self) -> Value {
        json!({"fen": self.fen, "depth": self.depth, "fixed": self.fixed, "key_seed": self.key_seed,
            "fault_seed": self.fault_seed, "miss_permille": self.miss_permille, "drop_permille": self.drop_permille,
            "explicit": self.explicit.as_ref().map(|v| v.iter().map(|(s, h)| json!([s, h])).collect::<Vec<_>>()),
            "really_new": self.really_new})
    }
    pub fn from_json(v: &Value) -> Option<Scenario> {
        Some(Scenario {
            fen: v["fen"].as_str()?.to_string(),
            depth: v["depth"].as_u64()? as u8,
            fixed: v["fixed"].as_bool().unwrap_or(false),
            key_seed: v["key_seed"].as_u64().unwrap_or(0),
            fault_seed: v["fault_seed"].as_u64().unwrap_or(0),
            miss_permille: v["miss_permille"].as_u64().unwrap_or(0) as u32,
            drop_permille: v["drop_permille"].as_u64().unwrap_or(0) as u32,
            explicit: v["explicit"].as_array().map(|a| {
                a.iter()
                    .filter_map(|x| Some((x[0].as_u64()? as u8, x[1].as_u64()?)))
                    .collect()
            }),
            really_new: v["really_new"].as_bool().unwrap_or(false),
        })
    }
}

#[derive(Default)]
pub struct ScenarioOutcome {
    pub violations: Vec<(String, String)>,
    pub probes: Counters,
    pub faults: Counters,
    pub log_hash: u64,
    pub skipped: Option<String>,
    /// the faults that actually fired, for an explicit replay
    pub fired: Vec<(u8, u64)>,
    pub tt_traffic: Vec<engine::verif_seam::Event>,
}

pub fn run_scenario(bench: &mut Bench, sc: &Scenario, record_traffic: bool) -> ScenarioOutcome {
    let mut out = ScenarioOutcome::default();
    if let Err(e) = prepare_pos(bench, &sc.fen, sc.depth) {
        out.skipped = Some(format!("{:?}", e));
        return out;
    }
    let board = bench.pos.as_ref().unwrap().board;
    let m = bench.pos.as_ref().unwrap().m_root[sc.depth as usize];
    let has_moves = !bench.reference.gen.generate_moves(&board).is_empty();
    let mut st = SimState::new(sc.key_seed, sc.fault_seed);
    st.ev(&format!(
        "cfg c05 fen={} depth={} fixed={} key_seed={} fault_seed={} miss={} drop={} explicit={:?} new={}",
        sc.fen, sc.depth, sc.fixed, sc.key_seed, sc.fault_seed, sc.miss_permille, sc.drop_permille, sc.explicit, sc.really_new
    ));
    st.buggify.rate_permille = [sc.miss_permille, sc.drop_permille];
    st.buggify.explicit = sc.explicit.clone();
    st.record_tt_traffic = record_traffic;
    st.max_nodes_per_search = 50_000_000;
    let sess = Session::new(st);
    let o = sess.fresh(&mut bench.searcher, sc.really_new);
    if o != Outcome::Returned {
        out.violations.push(("crash".into(), format!("fresh engine: {:?}", o)));
        out.log_hash = sess.st().log_hash;
        return out;
    }
    let r = if sc.fixed {
        sess.search_fixed(&mut bench.searcher, &board, sc.depth)
    } else {
        sess.search(&mut bench.searcher, &board, sc.depth, None)
    };
    // "under cache faults" only if a fault actually fired in this run (so that the explicit
    // replay, which lists the fired faults, classifies the same way)
    let faulty = !sess.st().fired.is_empty();
    match &r.outcome {
        Outcome::Returned => {
            let rec = r.rec.clone().unwrap();
            out.probes.add("tt_exact_hit", rec.tt_hits_exact);
            out.probes.add("tt_bound_cutoff", rec.tt_hits - rec.tt_hits_exact);
            let deeper = if sc.fixed {
                rec.tt_hits_deeper
            } else {
                let n = rec.info_marks.len();
                if n >= 1 {
                    rec.info_marks[n - 1].3 - if n >= 2 { rec.info_marks[n - 2].3 } else { 0 }
                } else {
                    0
                }
            };
            if deeper > 0 {
                // a result cached by a deeper search was reused: the reference value is
                // ambiguous for this run (the property's own restriction)
                out.probes.add("runs_skipped_deeper_entry_reused", 1);
                out.skipped = Some("deeper entry reused".into());
            } else {
                let got = norm(r.score);
                if !has_moves {
                    if r.mv.is_some() {
                        out.violations.push(("move_in_terminal_position".into(), format!("returned {} although there is no legal move", move_str(&r.mv))));
                    }
                    if sc.fixed && got != m {
                        out.violations.push(("value_wrong".into(), format!("terminal position: engine {} reference {}", r.score, m)));
                    }
                } else if got != m {
                    out.violations.push((
                        if faulty { "value_wrong_under_cache_faults".into() } else { "value_wrong".into() },
                        format!("engine reports {} (norm {}), reference M={} [{} depth {}]", r.score, got, m, if sc.fixed { "fixed" } else { "iterative" }, sc.depth),
                    ));
                } else {
                    match r.mv {
                        Some(mv) => match bench.reference.move_value(&board, &mv, sc.depth) {
                            Ok(v) if v != m => out.violations.push((
                                if faulty { "move_not_attaining_under_cache_faults".into() } else { "move_not_attaining".into() },
                                format!("move {} is worth {} but the reported value is {}", mv.to_algebraic(), v, m),
                            )),
                            _ => {}
                        },
                        None => out.violations.push(("move_missing".into(), "no move returned although legal moves exist".into())),
                    }
                }
            }
        }
        o => out.violations.push(("crash".into(), format!("{:?}", o))),
    }
    let mut st = sess.st();
    out.log_hash = st.log_hash;
    out.fired = st.fired.clone();
    out.faults.add("tt_probe_miss", st.faults.tt_probe_miss);
    out.faults.add("tt_store_drop", st.faults.tt_store_drop);
    out.faults.add("key_redraw", st.faults.key_draws);
    out.tt_traffic = std::mem::take(&mut st.tt_traffic);
    out
}

fn to_violations(sc: &Scenario, o: &ScenarioOutcome, i: u64, seed: u64) -> Vec<Violation> {
    // the recorded scenario is explicit: the faults that fired, not the rates
    let mut explicit = sc.clone();
    if explicit.explicit.is_none() && (sc.miss_permille > 0 || sc.drop_permille > 0) {
        explicit.explicit = Some(o.fired.clone());
        explicit.miss_permille = 0;
        explicit.drop_permille = 0;
    }
    o.violations
        .iter()
        .map(|(class, detail)| Violation {
            prop: "C05".into(),
            class: class.clone(),
            detail: detail.clone(),
            scenario: explicit.to_json(),
            sim_index: i,
            sim_seed: seed,
            log_hash: o.log_hash,
        })
        .collect()
}

pub fn replay_value(v: &Value) -> Vec<Violation> {
    let Some(sc) = Scenario::from_json(v) else { return vec![] };
    with_bench(|b| {
        let o = run_scenario(b, &sc, false);
        o.violations
            .iter()
            .map(|(class, detail)| Violation {
                prop: "C05".into(),
                class: class.clone(),
                detail: detail.clone(),
                scenario: sc.to_json(),
                sim_index: 0,
                sim_seed: 0,
                log_hash: o.log_hash,
            })
            .collect()
    })
}

pub fn shrink_value(v: &Value) -> Vec<Value> {
    let Some(sc) = Scenario::from_json(v) else { return vec![] };
    let mut out = vec![];
    if let Some(e) = &sc.explicit {
        if !e.is_empty() {
            let mut n = sc.clone();
            n.explicit = Some(vec![]);
            out.push(n.to_json());
            if e.len() > 1 {
                let mut n = sc.clone();
                n.explicit = Some(e[..e.len() / 2].to_vec());
                out.push(n.to_json());
                let mut n = sc.clone();
                n.explicit = Some(e[e.len() / 2..].to_vec());
                out.push(n.to_json());
            }
            if e.len() <= 24 {
                for i in 0..e.len() {
                    let mut n = sc.clone();
                    let mut l = e.clone();
                    l.remove(i);
                    n.explicit = Some(l);
                    out.push(n.to_json());
                }
            }
        }
    }
    if sc.really_new {
        let mut n = sc.clone();
        n.really_new = false;
        out.push(n.to_json());
    }
    if sc.depth > 1 {
        let mut n = sc.clone();
        n.depth -= 1;
        out.push(n.to_json());
    }
    if sc.key_seed != 0 {
        let mut n = sc.clone();
        n.key_seed = 0;
        out.push(n.to_json());
    }
    out
}

/// Of a few dozen candidates (pawn phalanxes far up the board, sparse endgames) the one whose
/// static evaluation, as the engine computes it, is farthest from the bare material count;
/// returns it with that distance. Whatever short cut a search takes around the evaluation
/// (lazy evaluation, futility margins) is exercised where it matters most.
pub fn lopsided_position(rng: &mut Rng) -> (crate::rules::Pos, i32) {
    use crate::rules::*;
    let mut ev = engine::eval::Evaluator::new();
    let mut best: Option<(Pos, i32)> = None;
    for k in 0..24 {
        let p = if k % 4 == 3 { gen::sparse_position(rng) } else { gen::pawn_phalanx_position(rng) };
        let board = engine::board::Board::new(&fen_for_search(&p));
        let e = ev.evaluate(&board);
        let mut m = 0i32;
        for s in 0..64 {
            let v = match kind(p.sq[s]) {
                PAWN => 100,
                KNIGHT => 320,
                BISHOP => 330,
                ROOK => 500,
                QUEEN => 900,
                _ => 0,
            };
            m += if is_black(p.sq[s]) { -v } else { v };
        }
        let d = (e - m).abs().min((e + m).abs());
        if best.as_ref().map(|b| d > b.1).unwrap_or(true) {
            best = Some((p, d));
        }
    }
    best.unwrap()
}

/// Positions for C05: playouts at all stages, constructed tactical positions, sparse
/// endgames (for the deeper fixed searches), terminal positions.
pub fn pick_position(rng: &mut Rng, sparse: bool, promo: bool) -> crate::rules::Pos {
    if promo {
        // the special families: more than 128 legal moves, a single legal move at the root
        // (whatever shortcut an engine takes for a forced reply must not change the value),
        // promotion choices
        return match rng.below(6) {
            0 | 1 => gen::many_queens_position(rng),
            2 => gen::single_reply_position(rng).unwrap_or_else(|| gen::promotion_choice_position(rng)),
            3 => gen::stalemate_trick_position(rng).unwrap_or_else(|| gen::promotion_choice_position(rng)),
            _ => gen::promotion_choice_position(rng),
        };
    }
    if sparse {
        return if rng.chance(1, 2) { gen::sparse_position(rng) } else { gen::advanced_pawn_position(rng) };
    }
    match rng.below(10) {
        9 => gen::discovered_mate_position(rng).unwrap_or_else(|| gen::sparse_position(rng)),
        8 => lopsided_position(rng).0,
        2 | 3 => gen::advanced_pawn_position(rng),
        0 => {
            let p = crate::rules::Pos::from_fen(*rng.pick(gen::EDGE_FENS)).unwrap();
            p
        }
        1 => gen::sparse_position(rng),
        _ => {
            let p = gen::random_position(rng);
            if p.is_valid() {
                p
            } else {
                crate::rules::Pos::startpos()
            }
        }
    }
}

pub fn run(ctx: &Ctx) -> i32 {
    let positions = ctx.n(640, 8000);
    let (ref_tree_budget, max_engine_nodes): (u64, u64) = match ctx.tier {
        Tier::Quick => (60_000, 200_000),
        Tier::Thorough => (600_000, 2_000_000),
    };
    // the deeper fixed-depth searches run on sparse positions whose leaves are cheap
    let ref_tree_budget_fixed: u64 = match ctx.tier {
        Tier::Quick => 300_000,
        Tier::Thorough => 1_500_000,
    };
    let rep = run_batch(positions, ctx.workers, |i| {
        let seed = derive(ctx.seed, "C05", i);
        let mut rng = Rng::new(seed);
        let mut res = SimResult::default();
        let mut log_hash = FNV_INIT;
        with_bench(|bench| {
            // of five sims: two general iterative, one promotion-choice iterative, two fixed-depth
            let fixed = i % 5 >= 3;
            let promo = i % 5 == 2;
            bench.reference.tree_node_budget = if fixed { ref_tree_budget_fixed } else { ref_tree_budget };
            bench.reference.q_node_budget = 100_000;
            bench.max_engine_nodes = max_engine_nodes;
            let mut tries = 0;
            let (fen, depth) = loop {
                tries += 1;
                let p = pick_position(&mut rng, fixed, promo);
                let fen = fen_for_search(&p);
                let depth: u8 = if fixed {
                    if rng.chance(2, 3) { 5 } else { 4 }
                } else if promo {
                    if p.legal_moves().len() > 128 { rng.range(1, 2) as u8 } else { rng.range(2, 3) as u8 }
                } else {
                    // depth 3 twice as often as 1 and 2: what depends on a window closed two
                    // plies down (null-move-like short cuts) only exists there
                    *rng.pick(&[1u8, 2, 3, 3])
                };
                match prepare_pos(bench, &fen, depth) {
                    Ok(()) => break (fen, depth),
                    Err(RefError::EngineCrash(m)) => {
                        res.violations.push(Violation {
                            prop: "C05".into(),
                            class: "crash".into(),
                            detail: m,
                            scenario: json!({"fen": fen, "depth": depth, "fixed": fixed}),
                            sim_index: i,
                            sim_seed: seed,
                            log_hash: 0,
                        });
                        return;
                    }
                    Err(_) => {
                        res.probes.add("positions_skipped_budget", 1);
                        if tries > 60 {
                            return;
                        }
                    }
                }
            };
            if promo {
                res.probes.add("promotion_choice_positions", 1);
            }
            if bench.reference.gen.generate_moves(&bench.pos.as_ref().unwrap().board).len() == 1 {
                res.probes.add("positions_with_a_single_legal_move", 1);
            }
            if bench.reference.gen.generate_moves(&bench.pos.as_ref().unwrap().board).len() > 128 {
                res.probes.add("positions_with_more_than_128_legal_moves", 1);
            }
            res.probes.add("mate_inside_tree", bench.reference.probes_mate_inside_tree.min(1));
            res.probes.add("stalemate_inside_tree", bench.reference.probes_stalemate_inside_tree.min(1));
            bench.reference.probes_mate_inside_tree = 0;
            bench.reference.probes_stalemate_inside_tree = 0;
            // configurations: fault-free with two key sets (one on a really new engine),
            // then buggified caches
            let mut scs = vec![];
            for k in 0..2 {
                scs.push(Scenario {
                    fen: fen.clone(),
                    depth,
                    fixed,
                    key_seed: rng.next_u64(),
                    fault_seed: 0,
                    miss_permille: 0,
                    drop_permille: 0,
                    explicit: None,
                    really_new: k == 1 && i % 8 == 0,
                });
            }
            for (miss, drop) in [(10u32, 0u32), (100, 0), (500, 100), (100, 100), (0, 300)] {
                scs.push(Scenario {
                    fen: fen.clone(),
                    depth,
                    fixed,
                    key_seed: rng.next_u64(),
                    fault_seed: rng.next_u64(),
                    miss_permille: miss,
                    drop_permille: drop,
                    explicit: None,
                    really_new: false,
                });
            }
            for sc in &scs {
                let o = run_scenario(bench, sc, false);
                res.evaluations += 1;
                log_hash = fnv1a(log_hash, &o.log_hash.to_le_bytes());
                res.probes.merge(&o.probes);
                res.faults.merge(&o.faults);
                if o.skipped.is_none() {
                    res.distinct.push(hash_str(&format!("{}|{}|{}|{}|{}", sc.fen, sc.depth, sc.fixed, sc.miss_permille, sc.drop_permille)));
                    res.probes.add(if sc.fixed { "fixed_depth_runs_compared" } else { "iterative_runs_compared" }, 1);
                }
                res.violations.extend(to_violations(sc, &o, i, seed));
            }
            if i < 5 {
                res.sample = Some(json!({"fen": fen, "depth": depth, "mode": if fixed {"fixed"} else {"iterative"},
                    "reference_value": bench.pos.as_ref().unwrap().m_root[depth as usize], "configurations": scs.len()}));
            }
        });
        res.log_hash = log_hash;
        res
    });
    let ev = Evidence {
        level: "exploration",
        rule: "Positions: seeded playouts of the rules model at all stages, constructed tactical/terminal positions, sparse endgames; kept when the unpruned reference fits its node budget. Of five sims two search a general position with find_best_move to depth 1..3, one a promotion-choice position (pawn on the 7th, both kings near the promotion square: stalemate tricks and mating under-promotions) to depth 2..3 (a third of these are instead positions with more than 128 legal moves - five to eight queens - to depth 1..2, a sixth middlegame positions with a single legal move at the root, a sixth positions in which promoting to a queen stalemates; a quarter of the promotion positions carry a halfmove clock of 96..99), two run one fixed-depth search at depth 4..5 on a sparse position (accepted only when no deeper cached result was reused), each fault-free under two key sets and under five buggified-cache configurations (probe-miss 1%/10%/50%, store-drop 0/10%/30%). Oracle: norm(score)==M and the move attains M. A case = (position, depth, mode, fault configuration) that was compared; all are non-trivial. One general position in nine is chosen among 24 candidates (pawn phalanxes far up the board, sparse endgames) as the one whose static evaluation is farthest from the bare material count. One general position in ten is a position in which some move mates by a discovered check.".into(),
        extra: serde_json::Map::new(),
        assumptions: vec![
            "reference M takes the engine's move generator, make_move, static evaluation and full-window quiescence as given".into(),
            "positions whose reference exceeds the node budget are skipped and counted".into(),
            "what is simulated here is the key draw and the forgetful/refusing cache; the positions are sampled inputs".into(),
        ],
        exhaustive: None,
    };
    conclude(ctx, &rep, ev, &replay_value, &shrink_value)
}

pub fn replay(path: &std::path::Path) -> i32 {
    let doc: Value = read_replay(path);
    let vs = replay_value(&doc["scenario"]);
    conclude_replay("C05", &vs, doc["class"].as_str())
}
