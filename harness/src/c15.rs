//! C15 — the transposition table returns only what was stored for that key, deepest wins.
//! Histories: (a) the store/retrieve traffic recorded from simulated searches
//! (interrupted, repeated, buggified), replayed call by call on a fresh real table next
//! to the reference map; (b) synthetic seeded histories over few keys with many depth
//! ties (model-based sequence testing, named as such: the table has no schedule or fault
//! of its own).

use crate::c05;
use crate::common::*;
use crate::rng::{derive, Rng};
use crate::sworld::*;
use engine::moves::{Move, MoveType};
use engine::pieces::Piece;
use engine::transposition::{Bounds, TranspositionTable};
use engine::verif_seam::Event;
use serde_json::{json, Value};
use std::collections::HashMap;

#[derive(Clone, Debug, PartialEq)]
pub enum Op {
    Store { key: u64, eval: i32, mv: Option<[u8; 4]>, depth: u8, bound: u8 },
    Retrieve { key: u64 },
}

impl Op {
    fn to_json(&self) -> Value {
        match self {
            Op::Store { key, eval, mv, depth, bound } => json!({"op": "store", "key": format!("{:016x}", key), "eval": eval, "mv": mv, "depth": depth, "bound": bound}),
            Op::Retrieve { key } => json!({"op": "retrieve", "key": format!("{:016x}", key)}),
        }
    }
    fn from_json(v: &Value) -> Option<Op> {
        let key = u64::from_str_radix(v["key"].as_str()?, 16).ok()?;
        match v["op"].as_str()? {
            "store" => Some(Op::Store {
                key,
                eval: v["eval"].as_i64()? as i32,
                mv: v["mv"].as_array().map(|a| {
                    let mut m = [0u8; 4];
                    for (i, x) in a.iter().take(4).enumerate() {
                        m[i] = x.as_u64().unwrap_or(0) as u8;
                    }
                    m
                }),
                depth: v["depth"].as_u64()? as u8,
                bound: v["bound"].as_u64()? as u8,
            }),
            _ => Some(Op::Retrieve { key }),
        }
    }
}

fn piece_of(i: u8) -> Piece {
    match i {
        0 => Piece::Pawn,
        1 => Piece::Knight,
        2 => Piece::Bishop,
        3 => Piece::Rook,
        4 => Piece::Queen,
        _ => Piece::King,
    }
}
fn move_type_of(i: u8) -> MoveType {
    match i {
        0 => MoveType::Quiet,
        1 => MoveType::Capture,
        2 => MoveType::EnPassant,
        3 => MoveType::Castle,
        _ => MoveType::Promotion,
    }
}
fn bound_of(i: u8) -> Bounds {
    match i {
        0 => Bounds::Exact,
        1 => Bounds::Lower,
        _ => Bounds::Upper,
    }
}
fn mk_move(m: [u8; 4]) -> Move {
    Move::new(m[0], m[1], piece_of(m[2]), move_type_of(m[3]))
}

pub fn ops_from_events(evs: &[Event]) -> Vec<Op> {
    evs.iter()
        .filter_map(|e| match e {
            Event::TtStore { key, eval, mv, depth, bound } => Some(Op::Store { key: *key, eval: *eval, mv: *mv, depth: *depth, bound: *bound }),
            Event::TtRetrieve { key } => Some(Op::Retrieve { key: *key }),
            _ => None,
        })
        .collect()
}

#[derive(Clone, Copy, PartialEq, Debug)]
struct ModelEntry {
    eval: i32,
    mv: Option<[u8; 4]>,
    depth: u8,
    bound: u8,
}

/// Replays `ops` on a fresh real table next to model T. Returns (class, detail, op index).
pub fn replay_ops(ops: &[Op]) -> (Option<(String, String)>, Counters) {
    let mut probes = Counters::default();
    let mut model: HashMap<u64, ModelEntry> = HashMap::new();
    let (r, crashed) = {
        let st = crate::simworld::SimState::new(0, 0);
        let proc_ = crate::simworld::Proc::start(st, None);
        let (o, r) = proc_.run(|| {
            let mut tt = TranspositionTable::new();
            for (i, op) in ops.iter().enumerate() {
                match op {
                    Op::Store { key, eval, mv, depth, bound } => {
                        let accept = match model.get(key) {
                            None => true,
                            Some(old) => {
                                if old.depth == *depth {
                                    probes.add("store_equal_depth", 1);
                                } else if old.depth > *depth {
                                    probes.add("store_shallower_rejected", 1);
                                } else {
                                    probes.add("store_deeper_replaces", 1);
                                }
                                old.depth <= *depth
                            }
                        };
                        if accept {
                            model.insert(*key, ModelEntry { eval: *eval, mv: *mv, depth: *depth, bound: *bound });
                        }
                        tt.store(*key, *eval, mv.map(mk_move), *depth, bound_of(*bound));
                    }
                    Op::Retrieve { key } => {
                        let got = tt.retrieve(*key).copied();
                        let want = model.get(key);
                        match (got, want) {
                            (None, None) => probes.add("retrieve_miss", 1),
                            (Some(g), Some(w)) => {
                                probes.add("retrieve_hit", 1);
                                if g.hash_key != *key {
                                    return Some(("foreign_entry_returned".to_string(), format!("op {}: retrieve({:016x}) returned an entry stored under {:016x}", i, key, g.hash_key)));
                                }
                                let same = g.eval == w.eval && g.depth == w.depth && g.bounds == bound_of(w.bound) && g.best_move == w.mv.map(mk_move);
                                if !same {
                                    return Some((
                                        "wrong_entry_returned".to_string(),
                                        format!("op {}: retrieve({:016x}) returned eval={} depth={} {:?} move={:?}; the data most recently accepted is eval={} depth={} bound={} move={:?}", i, key, g.eval, g.depth, g.bounds, g.best_move.map(|m| m.to_algebraic()), w.eval, w.depth, w.bound, w.mv),
                                    ));
                                }
                            }
                            (Some(g), None) => {
                                return Some(("entry_from_nowhere".to_string(), format!("op {}: retrieve({:016x}) returned eval={} depth={} although nothing was stored under that key", i, key, g.eval, g.depth)));
                            }
                            (None, Some(w)) => {
                                return Some(("stored_entry_lost".to_string(), format!("op {}: retrieve({:016x}) returned nothing although eval={} depth={} was accepted", i, key, w.eval, w.depth)));
                            }
                        }
                    }
                }
            }
            None
        });
        let crashed = match o {
            crate::simworld::Outcome::Returned => None,
            o => Some(format!("{:?}", o)),
        };
        (r.flatten(), crashed)
    };
    if let Some(c) = crashed {
        return (Some(("crash".into(), c)), probes);
    }
    (r, probes)
}

pub fn synthetic_history(rng: &mut Rng) -> Vec<Op> {
    let nkeys = rng.range(1, 6) as usize;
    // keys that collide in their low bits (a truncated index would confuse them)
    let base = rng.next_u64();
    let keys: Vec<u64> = (0..nkeys)
        .map(|i| match rng.below(3) {
            0 => base ^ ((i as u64) << 32),
            1 => base ^ ((i as u64) << 48),
            _ => rng.next_u64(),
        })
        .collect();
    let n = rng.range(1, 400);
    let max_depth = rng.range(0, 4) as u8;
    (0..n)
        .map(|_| {
            let key = *rng.pick(&keys);
            if rng.chance(2, 5) {
                Op::Retrieve { key }
            } else {
                Op::Store {
                    key,
                    eval: rng.range(0, 4000) as i32 - 2000,
                    mv: if rng.chance(1, 4) { None } else { Some([rng.below(64) as u8, rng.below(64) as u8, rng.below(6) as u8, rng.below(5) as u8]) },
                    depth: rng.range(0, max_depth as u64) as u8,
                    bound: rng.below(3) as u8,
                }
            }
        })
        .collect()
}

fn scenario_json(ops: &[Op], origin: &str) -> Value {
    json!({"origin": origin, "ops": ops.iter().map(|o| o.to_json()).collect::<Vec<_>>()})
}

pub fn replay_value(v: &Value) -> Vec<Violation> {
    let Some(arr) = v["ops"].as_array() else { return vec![] };
    let ops: Vec<Op> = arr.iter().filter_map(Op::from_json).collect();
    let (viol, _) = replay_ops(&ops);
    viol.into_iter()
        .map(|(class, detail)| Violation {
            prop: "C15".into(),
            class,
            detail,
            scenario: scenario_json(&ops, v["origin"].as_str().unwrap_or("")),
            sim_index: 0,
            sim_seed: 0,
            log_hash: hash_str(&scenario_json(&ops, "").to_string()),
        })
        .collect()
}

pub fn shrink_value(v: &Value) -> Vec<Value> {
    let Some(arr) = v["ops"].as_array() else { return vec![] };
    let ops: Vec<Op> = arr.iter().filter_map(Op::from_json).collect();
    let origin = v["origin"].as_str().unwrap_or("").to_string();
    let mut out = vec![];
    let n = ops.len();
    // drop the tail, halves, then single operations
    let mut k = n / 2;
    while k >= 1 {
        if n > k {
            out.push(scenario_json(&ops[..n - k], &origin));
            out.push(scenario_json(&ops[k..], &origin));
        }
        k /= 2;
    }
    if n <= 64 {
        for i in 0..n {
            let mut o = ops.clone();
            o.remove(i);
            out.push(scenario_json(&o, &origin));
        }
    } else {
        // chunks
        let c = n / 16;
        for s in (0..n).step_by(c.max(1)) {
            let mut o = ops.clone();
            o.drain(s..(s + c).min(n));
            out.push(scenario_json(&o, &origin));
        }
    }
    out
}

pub fn run(ctx: &Ctx) -> i32 {
    let sims = ctx.n(6000, 200000);
    let rep = run_batch(sims, ctx.workers, |i| {
        let seed = derive(ctx.seed, "C15", i);
        let mut rng = Rng::new(seed);
        let mut res = SimResult::default();
        let (ops, origin): (Vec<Op>, String) = if i % 3 == 0 {
            // recorded traffic of simulated searches on one table: an interrupted search,
            // then completed ones, optionally with refused stores
            with_bench(|bench| {
                bench.reference.tree_node_budget = 0; // no reference needed
                let p = sample_position(&mut rng);
                let fen = fen_for_search(&p);
                let mut st = crate::simworld::SimState::new(rng.next_u64(), rng.next_u64());
                st.record_tt_traffic = true;
                st.tt_traffic_cap = 150_000;
                st.max_nodes_per_search = 300_000;
                if rng.chance(1, 3) {
                    st.buggify.rate_permille = [0, 100];
                }
                let j = rng.log_range(1, 3000);
                st.clock.forced_expiry.push((0, j));
                let sess = Session::new(st);
                sess.fresh(&mut bench.searcher, false);
                let board = engine::board::Board::new(&fen);
                let d = rng.range(2, 4) as u8;
                let _ = sess.search(&mut bench.searcher, &board, d, Some(HUGE_LIMIT));
                let _ = sess.search(&mut bench.searcher, &board, d.saturating_sub(1).max(1), None);
                let _ = sess.search(&mut bench.searcher, &board, d, None);
                let st = sess.st();
                res.faults.add("deadline_expired_mid_search", st.searches.first().map(|s| s.first_expired_read.is_some() as u64).unwrap_or(0));
                res.faults.add("tt_store_drop", st.faults.tt_store_drop);
                (ops_from_events(&st.tt_traffic), format!("recorded search traffic: {} depth {} expiry read {}", fen, d, j))
            })
        } else {
            (synthetic_history(&mut rng), "synthetic".to_string())
        };
        let _ = c05::pick_position; // (same position sources as C05)
        res.evaluations = 1;
        let (viol, probes) = replay_ops(&ops);
        res.probes.merge(&probes);
        res.probes.add(if origin == "synthetic" { "synthetic_histories" } else { "recorded_histories" }, 1);
        res.probes.add("operations_replayed", ops.len() as u64);
        let sj = scenario_json(&ops, &origin);
        let h = hash_str(&sj.to_string());
        res.log_hash = h;
        if ops.iter().any(|o| matches!(o, Op::Retrieve { .. })) && ops.iter().any(|o| matches!(o, Op::Store { .. })) {
            res.distinct.push(h);
        }
        if let Some((class, detail)) = viol {
            res.violations.push(Violation {
                prop: "C15".into(),
                class,
                detail,
                scenario: sj,
                sim_index: i,
                sim_seed: seed,
                log_hash: h,
            });
        }
        if i == 1 || i == 2 {
            res.sample = Some(json!({"origin": origin, "ops": ops.iter().take(12).map(|o| o.to_json()).collect::<Vec<_>>(), "length": ops.len()}));
        } else if i == 0 {
            res.sample = Some(json!({"origin": origin, "length": ops.len(), "first_ops": ops.iter().take(6).map(|o| o.to_json()).collect::<Vec<_>>()}));
        }
        res
    });
    let ev = Evidence {
        level: "exploration",
        rule: "Histories of store/retrieve calls: one third recorded from simulated searches on one table (a clock-interrupted search followed by two completed ones, optionally with refused stores), two thirds synthetic over 1-6 keys (some differing only in their high bits) with depths 0..4 and many ties. Each history is replayed call by call on a fresh real TranspositionTable next to a reference map with depth-preferred replacement; every retrieve must return exactly the reference's answer. A case = a history with at least one store and one retrieve; distinct by content hash.".into(),
        extra: serde_json::Map::new(),
        assumptions: vec![
            "the table is a deterministic function of its call sequence, so replaying recorded calls is equivalent to observing returns inside the search".into(),
            "the synthetic part is model-based sequence testing, not fault injection: the table has no schedule or fault of its own".into(),
        ],
        exhaustive: None,
    };
    conclude(ctx, &rep, ev, &replay_value, &shrink_value)
}

pub fn replay(path: &std::path::Path) -> i32 {
    let doc: Value = read_replay(path);
    let vs = replay_value(&doc["scenario"]);
    conclude_replay("C15", &vs, doc["class"].as_str())
}
