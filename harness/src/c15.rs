//! C15 — the transposition table returns only what was stored for that key, deepest wins.
//! Histories: (a) the store/retrieve traffic recorded from simulated searches
//! (interrupted, repeated, buggified), replayed call by call on a fresh real table next
//! to the reference map; (b) synthetic seeded histories over few keys with many depth
//! ties (model-based sequence testing, named as such: the table has no schedule or fault
//! of its own).

use crate::c05;
use crate::common::*;
use crate::rng::{derive, Rng};
use crate::sworld::*;
use engine::moves::{Move, MoveType};
use engine::pieces::Piece;
use engine::transposition::{Bounds, TranspositionTable};
use engine::verif_seam::Event;
use serde_json::{json, Value};
use std::collections::HashMap;


/// `retrieve` hands out `Option<&Entry>` today; an engine that returns the entry by value is
/// just as good. Both are accepted, so that such a change still builds under the harness.
pub trait AsEntry {
    fn as_entry(self) -> Option<engine::transposition::Entry>;
}
impl AsEntry for Option<&engine::transposition::Entry> {
    fn as_entry(self) -> Option<engine::transposition::Entry> {
        self.copied()
    }
}
impl AsEntry for Option<engine::transposition::Entry> {
    fn as_entry(self) -> Option<engine::transposition::Entry> {
        self
    }
}
fn entry_of<T: AsEntry>(x: T) -> Option<engine::transposition::Entry> {
    x.as_entry()
}

#[derive(Clone, Debug, PartialEq)]
pub enum Op {
    Store { key: u64, eval: i32, mv: Option<[u8; 4]>, depth: u8, bound: u8 },
    Retrieve { key: u64 },
    /// A new table takes the place of the old one (as `ucinewgame` does with the whole
    /// searcher): `keep_old` = the new one is built while the old one still exists, else the
    /// old one is dropped first. Whatever the old table held was never given to the new one.
    NewTable { keep_old: bool },
}

impl Op {
    fn to_json(&self) -> Value {
        match self {
            Op::Store { key, eval, mv, depth, bound } => json!({"op": "store", "key": format!("{:016x}", key), "eval": eval, "mv": mv, "depth": depth, "bound": bound}),
            Op::Retrieve { key } => json!({"op": "retrieve", "key": format!("{:016x}", key)}),
            Op::NewTable { keep_old } => json!({"op": "new_table", "keep_old": keep_old}),
        }
    }
    fn from_json(v: &Value) -> Option<Op> {
        if v["op"].as_str()? == "new_table" {
            return Some(Op::NewTable { keep_old: v["keep_old"].as_bool().unwrap_or(false) });
        }
        let key = u64::from_str_radix(v["key"].as_str()?, 16).ok()?;
        match v["op"].as_str()? {
            "store" => Some(Op::Store {
                key,
                eval: v["eval"].as_i64()? as i32,
                mv: v["mv"].as_array().map(|a| {
                    let mut m = [0u8; 4];
                    for (i, x) in a.iter().take(4).enumerate() {
                        m[i] = x.as_u64().unwrap_or(0) as u8;
                    }
                    m
                }),
                depth: v["depth"].as_u64()? as u8,
                bound: v["bound"].as_u64()? as u8,
            }),
            _ => Some(Op::Retrieve { key }),
        }
    }
}

fn piece_of(i: u8) -> Piece {
    match i {
        0 => Piece::Pawn,
        1 => Piece::Knight,
        2 => Piece::Bishop,
        3 => Piece::Rook,
        4 => Piece::Queen,
        _ => Piece::King,
    }
}
fn move_type_of(i: u8) -> MoveType {
    match i {
        0 => MoveType::Quiet,
        1 => MoveType::Capture,
        2 => MoveType::EnPassant,
        3 => MoveType::Castle,
        _ => MoveType::Promotion,
    }
}
fn bound_of(i: u8) -> Bounds {
    match i {
        0 => Bounds::Exact,
        1 => Bounds::Lower,
        _ => Bounds::Upper,
    }
}
fn mk_move(m: [u8; 4]) -> Move {
    Move::new(m[0], m[1], piece_of(m[2]), move_type_of(m[3]))
}

pub fn ops_from_events(evs: &[Event]) -> Vec<Op> {
    evs.iter()
        .filter_map(|e| match e {
            Event::TtStore { key, eval, mv, depth, bound } => Some(Op::Store { key: *key, eval: *eval, mv: *mv, depth: *depth, bound: *bound }),
            Event::TtRetrieve { key } => Some(Op::Retrieve { key: *key }),
            _ => None,
        })
        .collect()
}

#[derive(Clone, Copy, PartialEq, Debug)]
struct ModelEntry {
    eval: i32,
    mv: Option<[u8; 4]>,
    depth: u8,
    bound: u8,
}

/// What a lookup showed (None = nothing).
type Seen = Option<ModelEntry>;

fn seen_of(e: Option<engine::transposition::Entry>, key: u64) -> Result<Seen, (String, String)> {
    match e {
        None => Ok(None),
        Some(g) => {
            if g.hash_key != key {
                return Err(("foreign_entry_returned".to_string(), format!("retrieve({:016x}) returned an entry stored under {:016x}", key, g.hash_key)));
            }
            let mv = g.best_move.map(|m| [m.from, m.to, m.piece_type.index() as u8, m.move_type as u8]);
            Ok(Some(ModelEntry { eval: g.eval, mv, depth: g.depth, bound: g.bounds as u8 }))
        }
    }
}

/// The rule for one store of `new` under a key whose lookup showed `before` just before
/// and `after` just after the call. Loss-tolerant: a table may forget (or decline to keep)
/// an entry - the property allows a lookup to return nothing - but what it returns must be
/// the data most recently accepted: a shallower result never replaces a deeper one, an equal
/// or deeper one does, and nothing else ever appears.
fn judge_store(key: u64, before: &Seen, new: &ModelEntry, after: &Seen, probes: &mut Counters) -> Option<(String, String)> {
    let show = |e: &ModelEntry| format!("eval={} depth={} bound={} move={:?}", e.eval, e.depth, e.bound, e.mv);
    match (before, after) {
        (Some(old), Some(now)) => {
            if old.depth > new.depth {
                probes.add("store_shallower_rejected", 1);
                if now == old {
                    None
                } else if now == new {
                    Some(("shallower_replaced_deeper".into(), format!("key {:016x} held [{}]; a store of [{}] replaced it", key, show(old), show(new))))
                } else {
                    Some(("wrong_entry_returned".into(), format!("key {:016x} held [{}]; after a store of [{}] it holds [{}]", key, show(old), show(new), show(now))))
                }
            } else {
                probes.add(if old.depth == new.depth { "store_equal_depth" } else { "store_deeper_replaces" }, 1);
                if now == new {
                    None
                } else if now == old {
                    Some(("equal_or_deeper_store_refused".into(), format!("key {:016x} held [{}]; a store of [{}] (equal or deeper) did not replace it", key, show(old), show(new))))
                } else {
                    Some(("wrong_entry_returned".into(), format!("key {:016x} held [{}]; after a store of [{}] it holds [{}]", key, show(old), show(new), show(now))))
                }
            }
        }
        (None, Some(now)) => {
            probes.add("store_on_empty_key", 1);
            if now == new {
                None
            } else {
                Some(("entry_from_nowhere".into(), format!("key {:016x} was empty; after a store of [{}] it holds [{}]", key, show(new), show(now))))
            }
        }
        (Some(old), None) => {
            // the entry vanished: allowed by the letter of the property, counted
            probes.add("entries_lost_on_store", 1);
            let _ = old;
            None
        }
        (None, None) => {
            probes.add("stores_not_kept", 1);
            None
        }
    }
}

/// A lookup of `key` that is not adjacent to a store of that key: nothing, or exactly what
/// the key was last seen to hold (entries may vanish, never change or appear by themselves).
fn judge_lookup(key: u64, last: Option<&Seen>, got: &Seen, probes: &mut Counters) -> Option<(String, String)> {
    let show = |e: &ModelEntry| format!("eval={} depth={} bound={} move={:?}", e.eval, e.depth, e.bound, e.mv);
    match (last.cloned().flatten(), got) {
        (None, None) => {
            probes.add("retrieve_miss", 1);
            None
        }
        (Some(_), None) => {
            probes.add("entries_lost_between_operations", 1);
            None
        }
        (None, Some(g)) => Some(("entry_from_nowhere".into(), format!("retrieve({:016x}) returned [{}] although the key held nothing", key, show(g)))),
        (Some(w), Some(g)) => {
            probes.add("retrieve_hit", 1);
            if *g == w {
                None
            } else {
                Some(("wrong_entry_returned".into(), format!("retrieve({:016x}) returned [{}]; the data most recently accepted is [{}]", key, show(g), show(&w))))
            }
        }
    }
}

/// Replays `ops` on a fresh real table. Every store is bracketed by a lookup of its key
/// before and after; the table is judged by what those lookups show. Returns (class, detail).
pub fn replay_ops(ops: &[Op]) -> (Option<(String, String)>, Counters) {
    let mut probes = Counters::default();
    let mut last: HashMap<u64, Seen> = HashMap::new();
    let (r, crashed) = {
        let st = crate::simworld::SimState::new(0, 0);
        let proc_ = crate::simworld::Proc::start(st, None);
        let (o, r) = proc_.run(|| {
            let mut tt = TranspositionTable::new();
            for (i, op) in ops.iter().enumerate() {
                let at = |v: (String, String)| (v.0, format!("op {}: {}", i, v.1));
                match op {
                    Op::NewTable { keep_old } => {
                        if *keep_old {
                            let old = std::mem::replace(&mut tt, TranspositionTable::new());
                            drop(old);
                        } else {
                            // drop first, then build (a placeholder keeps `tt` initialised)
                            let old = std::mem::replace(&mut tt, TranspositionTable::new());
                            drop(old);
                            let placeholder = std::mem::replace(&mut tt, TranspositionTable::new());
                            drop(placeholder);
                        }
                        // nothing was ever stored into this table
                        last.clear();
                        probes.add("tables_replaced_within_a_history", 1);
                    }
                    Op::Store { key, eval, mv, depth, bound } => {
                        let before = match seen_of(entry_of(tt.retrieve(*key)), *key) {
                            Ok(x) => x,
                            Err(v) => return Some(at(v)),
                        };
                        if let Some(v) = judge_lookup(*key, last.get(key), &before, &mut probes) {
                            return Some(at(v));
                        }
                        tt.store(*key, *eval, mv.map(mk_move), *depth, bound_of(*bound));
                        let after = match seen_of(entry_of(tt.retrieve(*key)), *key) {
                            Ok(x) => x,
                            Err(v) => return Some(at(v)),
                        };
                        let new = ModelEntry { eval: *eval, mv: *mv, depth: *depth, bound: *bound };
                        if let Some(v) = judge_store(*key, &before, &new, &after, &mut probes) {
                            return Some(at(v));
                        }
                        last.insert(*key, after);
                    }
                    Op::Retrieve { key } => {
                        let got = match seen_of(entry_of(tt.retrieve(*key)), *key) {
                            Ok(x) => x,
                            Err(v) => return Some(at(v)),
                        };
                        if let Some(v) = judge_lookup(*key, last.get(key), &got, &mut probes) {
                            return Some(at(v));
                        }
                        last.insert(*key, got);
                    }
                }
            }
            None
        });
        let crashed = match o {
            crate::simworld::Outcome::Returned => None,
            o => Some(format!("{:?}", o)),
        };
        (r.flatten(), crashed)
    };
    if let Some(c) = crashed {
        return (Some(("crash".into(), c)), probes);
    }
    (r, probes)
}

pub fn synthetic_history(rng: &mut Rng) -> Vec<Op> {
    let nkeys = rng.range(1, 6) as usize;
    // keys that collide in their low bits (a truncated index would confuse them)
    let base = rng.next_u64();
    // one history in eight uses the keys a table might reserve for its own purposes (0 as an
    // "empty" marker, all ones, 1)
    let special = rng.chance(1, 8);
    let keys: Vec<u64> = (0..nkeys)
        .map(|i| {
            if special && i < 3 {
                return [0u64, u64::MAX, 1][i];
            }
            match rng.below(3) {
                0 => base ^ ((i as u64) << 32),
                1 => base ^ ((i as u64) << 48),
                _ => rng.next_u64(),
            }
        })
        .collect();
    let n = rng.range(1, 400);
    // mostly small depths with many ties; one history in five uses the whole range of the
    // depth byte, with the values around powers of two that a packed representation may lose
    let wide = rng.chance(1, 5);
    let max_depth = rng.range(0, 4) as u8;
    // one history in three draws its scores from a handful of values: equal scores with
    // other bounds and depths on one key (what fail-hard window edges produce in a search)
    let coarse = rng.chance(1, 3);
    // one history in four replaces the table one to three times on the way (what ucinewgame
    // does with the searcher): the new table was never given anything, whatever the old held
    let replace_rate = if rng.chance(1, 4) { (3 * 1000 / n.max(1)).clamp(1, 200) } else { 0 };
    (0..n)
        .map(|_| {
            if rng.below(1000) < replace_rate {
                return Op::NewTable { keep_old: rng.chance(1, 2) };
            }
            let key = *rng.pick(&keys);
            if rng.chance(2, 5) {
                Op::Retrieve { key }
            } else {
                Op::Store {
                    key,
                    eval: match rng.below(8) {
                        // the scores a search really stores include mates and window edges
                        0 => {
                            let d = rng.below(64) as i32;
                            *rng.pick(&[i32::MAX - 1000, -(i32::MAX - 1000), i32::MAX - 1000 - d, -(i32::MAX - 1000) + d, 32767, -32767, i32::MAX, i32::MIN + 1, 0])
                        }
                        _ if coarse => *rng.pick(&[-1, 0, 0, 1, 35, 100]),
                        _ => rng.range(0, 4000) as i32 - 2000,
                    },
                    mv: if rng.chance(1, 4) { None } else { Some([rng.below(64) as u8, rng.below(64) as u8, rng.below(6) as u8, rng.below(5) as u8]) },
                    depth: if wide { *rng.pick(&[0u8, 1, 2, 31, 32, 62, 63, 64, 65, 127, 128, 254, 255]) } else { rng.range(0, max_depth as u64) as u8 },
                    bound: rng.below(3) as u8,
                }
            }
        })
        .collect()
}


// ---------------------------------------------------------------------------------
// In-situ audit: the table as it lives inside the engine over several searches
// ---------------------------------------------------------------------------------

#[derive(Clone, Debug)]
pub struct InsituStep {
    pub fen: String,
    pub depth: u8,
    /// Some(j): clock-limited search whose deadline first reads expired at read j
    pub expiry: Option<u64>,
}

#[derive(Clone, Debug)]
pub struct Insitu {
    pub key_seed: u64,
    pub fault_seed: u64,
    pub store_drop_permille: u32,
    pub steps: Vec<InsituStep>,
}

impl Insitu {
    fn to_json(&self) -> Value {
        json!({"origin": "insitu", "insitu": {"key_seed": self.key_seed, "fault_seed": self.fault_seed, "store_drop_permille": self.store_drop_permille,
            "steps": self.steps.iter().map(|s| json!({"fen": s.fen, "depth": s.depth, "expiry": s.expiry})).collect::<Vec<_>>()}})
    }
    fn from_json(v: &Value) -> Option<Insitu> {
        let v = v.get("insitu")?;
        Some(Insitu {
            key_seed: v["key_seed"].as_u64()?,
            fault_seed: v["fault_seed"].as_u64().unwrap_or(0),
            store_drop_permille: v["store_drop_permille"].as_u64().unwrap_or(0) as u32,
            steps: v["steps"].as_array()?.iter().filter_map(|s| Some(InsituStep { fen: s["fen"].as_str()?.to_string(), depth: s["depth"].as_u64()? as u8, expiry: s["expiry"].as_u64() })).collect(),
        })
    }
}

/// Several searches on ONE engine (no reset in between); every store the searcher
/// makes is judged by what the table shows for its key right before and right after, and
/// after each search the table must hold nothing but what those stores left there. Returns (violation, probes, event-log hash).
pub fn run_insitu(sc: &Insitu) -> (Option<(String, String)>, Counters, u64) {
    let mut probes = Counters::default();
    with_bench(|bench| {
        let mut st = crate::simworld::SimState::new(sc.key_seed, sc.fault_seed);
        st.ev(&format!("cfg c15 insitu {}", sc.to_json()));
        st.record_tt_traffic = true;
        st.tt_traffic_cap = 600_000;
        st.max_nodes_per_search = 300_000;
        st.buggify.rate_permille = [0, sc.store_drop_permille];
        for (i, s) in sc.steps.iter().enumerate() {
            if let Some(j) = s.expiry {
                st.clock.forced_expiry.push((i as u64, j));
            }
        }
        let sess = Session::new(st);
        sess.fresh(&mut bench.searcher, false);
        let mut last: HashMap<u64, Seen> = HashMap::new();
        let mut consumed = 0usize;
        let mut viol = None;
        let view = |v: &engine::verif_seam::EntryView| ModelEntry { eval: v.1, mv: v.2, depth: v.3, bound: v.4 };
        'steps: for (i, s) in sc.steps.iter().enumerate() {
            let board = engine::board::Board::new(&s.fen);
            let r = sess.search(&mut bench.searcher, &board, s.depth, if s.expiry.is_some() { Some(HUGE_LIMIT) } else { None });
            match &r.outcome {
                crate::simworld::Outcome::Returned => {}
                crate::simworld::Outcome::Aborted(_) => {
                    probes.add("insitu_inconclusive_step_cap", 1);
                    break;
                }
                o => {
                    viol = Some(("crash".to_string(), format!("search {} ({} depth {}): {:?}", i, s.fen, s.depth, o)));
                    break;
                }
            }
            let ctx = format!("search {} ({} depth {} expiry {:?})", i, s.fen, s.depth, s.expiry);
            let (events, full): (Vec<Event>, bool) = {
                let st = sess.st();
                let full = st.tt_traffic.len() >= st.tt_traffic_cap;
                let ev = st.tt_traffic[consumed..].to_vec();
                consumed = st.tt_traffic.len();
                (ev, full)
            };
            // every store the searcher made, with what the table showed right before and after
            let mut pending: Option<ModelEntry> = None;
            for e in &events {
                match e {
                    Event::TtStore { eval, mv, depth, bound, .. } => pending = Some(ModelEntry { eval: *eval, mv: *mv, depth: *depth, bound: *bound }),
                    Event::TtStoreEffect { key, before, after } => {
                        let Some(new) = pending.take() else { continue };
                        for v in [before, after].into_iter().flatten() {
                            if v.0 != *key {
                                viol = Some(("foreign_entry_returned".to_string(), format!("{}: lookup of {:016x} returned an entry stored under {:016x}", ctx, key, v.0)));
                                break 'steps;
                            }
                        }
                        let b: Seen = before.as_ref().map(view);
                        let a: Seen = after.as_ref().map(view);
                        if i > 0 && b.map(|x| x.depth > new.depth).unwrap_or(false) {
                            probes.add("insitu_shallower_store_on_deeper_entry_of_an_earlier_search", 1);
                        }
                        if let Some(v) = judge_lookup(*key, last.get(key), &b, &mut probes).or_else(|| judge_store(*key, &b, &new, &a, &mut probes)) {
                            viol = Some((v.0, format!("{}: {}", ctx, v.1)));
                            break 'steps;
                        }
                        last.insert(*key, a);
                        probes.add("insitu_stores_judged", 1);
                    }
                    _ => {}
                }
            }
            if full {
                probes.add("insitu_inconclusive_traffic_cap", 1);
                break;
            }
            // the table's whole content: nothing but what the judged stores left there
            let entries = bench.searcher.verif_tt_entries();
            probes.add("insitu_tables_audited", 1);
            probes.add("insitu_entries_compared", entries.len() as u64);
            for e in &entries {
                let mv = e.best_move.map(|m| [m.from, m.to, m.piece_type.index() as u8, m.move_type as u8]);
                let got = Some(ModelEntry { eval: e.eval, mv, depth: e.depth, bound: e.bounds as u8 });
                if let Some(v) = judge_lookup(e.hash_key, last.get(&e.hash_key), &got, &mut probes) {
                    viol = Some((v.0, format!("after {}: table content: {}", ctx, v.1)));
                    break 'steps;
                }
            }
            let held = last.values().filter(|v| v.is_some()).count();
            if entries.len() < held {
                probes.add("insitu_entries_missing_from_content", (held - entries.len()) as u64);
            }
        }
        let h = sess.st().log_hash;
        (viol, probes, h)
    })
}

/// Fills a fresh table with `n_keys` distinct keys (depth 0..3), then performs 20 000 stores
/// and lookups on keys among them. Every store is bracketed by lookups and judged like in
/// `replay_ops`. Deterministic in (rng state, n_keys).
pub fn run_huge(rng: &mut Rng, n_keys: u64) -> (Option<(String, String)>, Counters) {
    let mut probes = Counters::default();
    let base = rng.next_u64() | 1;
    let key_of = |i: u64| -> u64 { i.wrapping_mul(0x9E37_79B9_7F4A_7C15) ^ base };
    let depth_of = |i: u64| -> u8 { (i % 4) as u8 };
    let st = crate::simworld::SimState::new(0, 0);
    let proc_ = crate::simworld::Proc::start(st, None);
    let mut ops: Vec<(u64, Option<ModelEntry>)> = vec![];
    for _ in 0..20_000 {
        let i = rng.below(n_keys);
        if rng.chance(1, 3) {
            ops.push((i, None));
        } else {
            let d = (depth_of(i) as i64 + rng.range(0, 2) as i64 - 1).max(0) as u8; // shallower, equal, deeper
            ops.push((i, Some(ModelEntry { eval: rng.range(0, 4000) as i32 - 2000, mv: None, depth: d, bound: rng.below(3) as u8 })));
        }
    }
    let (o, r) = proc_.run(|| {
        let mut tt = TranspositionTable::new();
        for i in 0..n_keys {
            tt.store(key_of(i), i as i32 & 0xFFFF, None, depth_of(i), Bounds::Exact);
        }
        let mut last: HashMap<u64, Seen> = HashMap::new();
        for (n, (i, st)) in ops.iter().enumerate() {
            let key = key_of(*i);
            let filled = ModelEntry { eval: *i as i32 & 0xFFFF, mv: None, depth: depth_of(*i), bound: 0 };
            let before = match seen_of(entry_of(tt.retrieve(key)), key) {
                Ok(x) => x,
                Err(v) => return Some(v),
            };
            // what the key was last seen to hold: from an earlier operation, or the fill
            let known = last.get(&key).cloned().unwrap_or(Some(filled));
            if let Some(v) = judge_lookup(key, Some(&known), &before, &mut probes) {
                return Some((v.0, format!("table of {} keys, operation {}: {}", n_keys, n, v.1)));
            }
            match st {
                None => {
                    last.insert(key, before);
                }
                Some(new) => {
                    tt.store(key, new.eval, None, new.depth, bound_of(new.bound));
                    let after = match seen_of(entry_of(tt.retrieve(key)), key) {
                        Ok(x) => x,
                        Err(v) => return Some(v),
                    };
                    if let Some(v) = judge_store(key, &before, new, &after, &mut probes) {
                        return Some((v.0, format!("table of {} keys, operation {}: {}", n_keys, n, v.1)));
                    }
                    last.insert(key, after);
                }
            }
        }
        None
    });
    match o {
        crate::simworld::Outcome::Returned => (r.flatten(), probes),
        o => (Some(("crash".into(), format!("{:?}", o))), probes),
    }
}

/// The in-situ audit through the text protocol: `position`/`go depth` commands on one engine
/// process with `setoption name Hash value N` lines in between (ignored by an engine without
/// that option; an engine that has it must still return only what was last accepted for a
/// key). Scenario form: {"uci_insitu": {"key_seed", "lines"}}.
pub fn run_insitu_uci(key_seed: u64, lines: &[String]) -> (Option<(String, String)>, Counters, u64) {
    use crate::usession::StepSession;
    let mut probes = Counters::default();
    let mut st = crate::simworld::SimState::new(key_seed, 0);
    st.ev(&format!("cfg c15 uci_insitu key_seed={}", key_seed));
    st.record_tt_traffic = true;
    st.tt_traffic_cap = 600_000;
    st.max_nodes_per_search = 300_000;
    let (mut sess, o) = StepSession::start(st);
    if o != crate::simworld::Outcome::Returned {
        return (Some(("crash".into(), format!("engine start: {:?}", o))), probes, 0);
    }
    let mut last: HashMap<u64, Seen> = HashMap::new();
    let mut consumed = 0usize;
    let mut viol = None;
    let view = |v: &engine::verif_seam::EntryView| ModelEntry { eval: v.1, mv: v.2, depth: v.3, bound: v.4 };
    'lines: for (li, line) in lines.iter().enumerate() {
        let o = sess.cmd(line);
        match o {
            crate::simworld::Outcome::Returned => {}
            crate::simworld::Outcome::Aborted(_) => {
                probes.add("insitu_inconclusive_step_cap", 1);
                break;
            }
            o => {
                viol = Some(("crash".to_string(), format!("'{}': {:?}", line, o)));
                break;
            }
        }
        if line == "ucinewgame" {
            // a new engine state: what the old table held is gone by definition
            last.clear();
        }
        let events: Vec<Event> = {
            let st = sess.proc_.st.borrow();
            let ev = st.tt_traffic[consumed..].to_vec();
            consumed = st.tt_traffic.len();
            ev
        };
        let mut pending: Option<ModelEntry> = None;
        for e in &events {
            match e {
                Event::TtStore { eval, mv, depth, bound, .. } => pending = Some(ModelEntry { eval: *eval, mv: *mv, depth: *depth, bound: *bound }),
                Event::TtStoreEffect { key, before, after } => {
                    let Some(new) = pending.take() else { continue };
                    let b: Seen = before.as_ref().map(view);
                    let a: Seen = after.as_ref().map(view);
                    if let Some(v) = judge_lookup(*key, last.get(key), &b, &mut probes).or_else(|| judge_store(*key, &b, &new, &a, &mut probes)) {
                        viol = Some((v.0, format!("line {} '{}': {}", li, line, v.1)));
                        break 'lines;
                    }
                    last.insert(*key, a);
                    probes.add("insitu_stores_judged", 1);
                }
                _ => {}
            }
        }
    }
    let h = sess.proc_.st.borrow().log_hash;
    (viol, probes, h)
}

pub fn gen_insitu_uci(rng: &mut Rng) -> (u64, Vec<String>) {
    let p = sample_position(rng);
    let fen = fen_for_search(&p);
    let maxd = if p.piece_count() <= 10 { 4 } else { 3 };
    let sizes = [1u64, 2, 4, 16, 64];
    let a = *rng.pick(&sizes);
    let b = *rng.pick(&sizes);
    let mut lines = vec![format!("position fen {}", fen)];
    for k in 0..rng.range(3, 6) {
        // sizes alternate a, b, a, ... so that an earlier size comes back
        if rng.chance(2, 3) {
            lines.push(format!("setoption name Hash value {}", if k % 2 == 0 { a } else { b }));
        }
        lines.push(format!("go depth {}", rng.range(1, maxd)));
        if rng.chance(1, 8) {
            lines.push("ucinewgame".to_string());
            lines.push(format!("position fen {}", fen));
        }
    }
    (rng.next_u64(), lines)
}

pub fn gen_insitu(rng: &mut Rng) -> Insitu {
    let p = if rng.chance(1, 4) {
        // positions with mates and stalemates inside the horizon: mate scores get stored
        crate::rules::Pos::from_fen(*rng.pick(crate::gen::EDGE_FENS)).unwrap()
    } else {
        sample_position(rng)
    };
    let p = if p.legal_moves().is_empty() { crate::rules::Pos::startpos() } else { p };
    let mut fens = vec![fen_for_search(&p)];
    // a successor: its tree overlaps the parent's at other depths
    if let Some(m) = crate::gen::pick_move(rng, &p, 1) {
        let q = p.make(&m);
        if !q.legal_moves().is_empty() {
            fens.push(fen_for_search(&q));
        }
    }
    let n = rng.range(2, 5);
    let maxd = if p.piece_count() <= 10 { 4 } else { 3 };
    let steps = (0..n)
        .map(|_| InsituStep {
            fen: if rng.chance(3, 4) { fens[0].clone() } else { rng.pick(&fens).clone() },
            depth: rng.range(1, maxd) as u8,
            expiry: if rng.chance(1, 4) { Some(rng.log_range(1, 3000)) } else { None },
        })
        .collect();
    Insitu {
        key_seed: rng.next_u64(),
        fault_seed: rng.next_u64(),
        store_drop_permille: if rng.chance(1, 4) { 100 } else { 0 },
        steps,
    }
}

fn scenario_json(ops: &[Op], origin: &str) -> Value {
    json!({"origin": origin, "ops": ops.iter().map(|o| o.to_json()).collect::<Vec<_>>()})
}

pub fn replay_value(v: &Value) -> Vec<Violation> {
    if let Some(u) = v.get("uci_insitu") {
        let lines: Vec<String> = u["lines"].as_array().map(|a| a.iter().map(|x| x.as_str().unwrap_or("").to_string()).collect()).unwrap_or_default();
        let (viol, _, h) = run_insitu_uci(u["key_seed"].as_u64().unwrap_or(0), &lines);
        return viol
            .into_iter()
            .map(|(class, detail)| Violation { prop: "C15".into(), class, detail, scenario: v.clone(), sim_index: 0, sim_seed: 0, log_hash: h })
            .collect();
    }
    if let Some(h) = v.get("huge") {
        let n = h["keys"].as_u64().unwrap_or(0);
        let seed = h["rng_seed"].as_u64().unwrap_or(0);
        // same generator state as in the batch: the sim's rng after the draws made before
        let mut rng = Rng::new(seed);
        let (viol, _) = run_huge(&mut rng, n);
        return viol
            .into_iter()
            .map(|(class, detail)| Violation { prop: "C15".into(), class, detail, scenario: v.clone(), sim_index: 0, sim_seed: 0, log_hash: n })
            .collect();
    }
    if let Some(sc) = Insitu::from_json(v) {
        let (viol, _, h) = run_insitu(&sc);
        return viol
            .into_iter()
            .map(|(class, detail)| Violation { prop: "C15".into(), class, detail, scenario: sc.to_json(), sim_index: 0, sim_seed: 0, log_hash: h })
            .collect();
    }
    let Some(arr) = v["ops"].as_array() else { return vec![] };
    let ops: Vec<Op> = arr.iter().filter_map(Op::from_json).collect();
    let (viol, _) = replay_ops(&ops);
    viol.into_iter()
        .map(|(class, detail)| Violation {
            prop: "C15".into(),
            class,
            detail,
            scenario: scenario_json(&ops, v["origin"].as_str().unwrap_or("")),
            sim_index: 0,
            sim_seed: 0,
            log_hash: hash_str(&scenario_json(&ops, "").to_string()),
        })
        .collect()
}

pub fn shrink_value(v: &Value) -> Vec<Value> {
    if v.get("huge").is_some() {
        return vec![];
    }
    if let Some(u) = v.get("uci_insitu") {
        let lines: Vec<String> = u["lines"].as_array().map(|a| a.iter().map(|x| x.as_str().unwrap_or("").to_string()).collect()).unwrap_or_default();
        let mut out = vec![];
        for i in 1..lines.len() {
            let mut l = lines.clone();
            l.remove(i);
            out.push(json!({"origin": "uci_insitu", "uci_insitu": {"key_seed": u["key_seed"], "lines": l}}));
        }
        return out;
    }
    if let Some(sc) = Insitu::from_json(v) {
        let mut out = vec![];
        for i in 0..sc.steps.len() {
            let mut a = sc.clone();
            a.steps.remove(i);
            if !a.steps.is_empty() {
                out.push(a.to_json());
            }
        }
        if sc.store_drop_permille != 0 {
            let mut a = sc.clone();
            a.store_drop_permille = 0;
            out.push(a.to_json());
        }
        for i in 0..sc.steps.len() {
            if sc.steps[i].expiry.is_some() {
                let mut a = sc.clone();
                a.steps[i].expiry = None;
                out.push(a.to_json());
            }
            if sc.steps[i].depth > 1 {
                let mut a = sc.clone();
                a.steps[i].depth -= 1;
                out.push(a.to_json());
            }
            if sc.steps[i].fen != sc.steps[0].fen {
                let mut a = sc.clone();
                a.steps[i].fen = sc.steps[0].fen.clone();
                out.push(a.to_json());
            }
        }
        if sc.key_seed != 0 {
            let mut a = sc.clone();
            a.key_seed = 0;
            out.push(a.to_json());
        }
        return out;
    }
    let Some(arr) = v["ops"].as_array() else { return vec![] };
    let ops: Vec<Op> = arr.iter().filter_map(Op::from_json).collect();
    let origin = v["origin"].as_str().unwrap_or("").to_string();
    let mut out = vec![];
    let n = ops.len();
    // drop the tail, halves, then single operations
    let mut k = n / 2;
    while k >= 1 {
        if n > k {
            out.push(scenario_json(&ops[..n - k], &origin));
            out.push(scenario_json(&ops[k..], &origin));
        }
        k /= 2;
    }
    if n <= 64 {
        for i in 0..n {
            let mut o = ops.clone();
            o.remove(i);
            out.push(scenario_json(&o, &origin));
        }
    } else {
        // chunks
        let c = n / 16;
        for s in (0..n).step_by(c.max(1)) {
            let mut o = ops.clone();
            o.drain(s..(s + c).min(n));
            out.push(scenario_json(&o, &origin));
        }
    }
    out
}

pub fn run(ctx: &Ctx) -> i32 {
    let sims = ctx.n(6000, 200000);
    let rep = run_batch(sims, ctx.workers, |i| {
        let seed = derive(ctx.seed, "C15", i);
        let mut rng = Rng::new(seed);
        let mut res = SimResult::default();
        let huge = match ctx.tier {
            Tier::Quick => i == 8,
            Tier::Thorough => i % 30_000 == 8,
        };
        if huge {
            // a table that has grown large (more than a million positions, as over a long
            // game): stores and lookups on keys that are already cached must still obey the
            // rules. Judged on the fly; on a violation the last operations form the replay.
            let n_keys: u64 = match ctx.tier {
                Tier::Quick => 1_300_000,
                Tier::Thorough => [70_000u64, 300_000, 1_100_000, 2_200_000, 4_300_000][(seed % 5) as usize],
            };
            let (viol, probes) = run_huge(&mut rng, n_keys);
            res.evaluations = 1;
            res.probes.merge(&probes);
            res.probes.add("huge_table_histories", 1);
            res.log_hash = n_keys;
            res.distinct.push(hash_str(&format!("huge {}", n_keys)));
            if let Some((class, detail)) = viol {
                let sc = json!({"origin": "huge", "huge": {"keys": n_keys, "rng_seed": seed}});
                res.violations.push(Violation { prop: "C15".into(), class, detail, scenario: sc, sim_index: i, sim_seed: seed, log_hash: n_keys });
            }
            return res;
        }
        if i % 12 == 7 {
            let (ks, lines) = gen_insitu_uci(&mut rng);
            let (viol, probes, h) = run_insitu_uci(ks, &lines);
            res.evaluations = 1;
            res.probes.merge(&probes);
            res.probes.add("insitu_sessions_through_uci_with_setoption", 1);
            res.log_hash = h;
            let sc = json!({"origin": "uci_insitu", "uci_insitu": {"key_seed": ks, "lines": lines}});
            res.distinct.push(hash_str(&sc.to_string()));
            if let Some((class, detail)) = viol {
                res.violations.push(Violation { prop: "C15".into(), class, detail, scenario: sc, sim_index: i, sim_seed: seed, log_hash: h });
            }
            return res;
        }
        if i % 6 == 1 {
            let sc = gen_insitu(&mut rng);
            let (viol, probes, h) = run_insitu(&sc);
            res.evaluations = 1;
            res.probes.merge(&probes);
            res.probes.add("insitu_sessions", 1);
            res.faults.add("deadline_expired_mid_search", sc.steps.iter().filter(|s| s.expiry.is_some()).count() as u64);
            res.log_hash = h;
            res.distinct.push(hash_str(&sc.to_json().to_string()));
            if let Some((class, detail)) = viol {
                res.violations.push(Violation { prop: "C15".into(), class, detail, scenario: sc.to_json(), sim_index: i, sim_seed: seed, log_hash: h });
            }
            if i == 1 {
                res.sample = Some(sc.to_json());
            }
            return res;
        }
        let (ops, origin): (Vec<Op>, String) = if i % 3 == 0 {
            // recorded traffic of simulated searches on one table: an interrupted search,
            // then completed ones, optionally with refused stores
            with_bench(|bench| {
                bench.reference.tree_node_budget = 0; // no reference needed
                let p = sample_position(&mut rng);
                let fen = fen_for_search(&p);
                let mut st = crate::simworld::SimState::new(rng.next_u64(), rng.next_u64());
                st.record_tt_traffic = true;
                st.tt_traffic_cap = 150_000;
                st.max_nodes_per_search = 300_000;
                if rng.chance(1, 3) {
                    st.buggify.rate_permille = [0, 100];
                }
                let j = rng.log_range(1, 3000);
                st.clock.forced_expiry.push((0, j));
                let sess = Session::new(st);
                sess.fresh(&mut bench.searcher, false);
                let board = engine::board::Board::new(&fen);
                let d = rng.range(2, 4) as u8;
                let _ = sess.search(&mut bench.searcher, &board, d, Some(HUGE_LIMIT));
                let _ = sess.search(&mut bench.searcher, &board, d.saturating_sub(1).max(1), None);
                let _ = sess.search(&mut bench.searcher, &board, d, None);
                let st = sess.st();
                res.faults.add("deadline_expired_mid_search", st.searches.first().map(|s| s.first_expired_read.is_some() as u64).unwrap_or(0));
                res.faults.add("tt_store_drop", st.faults.tt_store_drop);
                (ops_from_events(&st.tt_traffic), format!("recorded search traffic: {} depth {} expiry read {}", fen, d, j))
            })
        } else {
            (synthetic_history(&mut rng), "synthetic".to_string())
        };
        let _ = c05::pick_position; // (same position sources as C05)
        res.evaluations = 1;
        let (viol, probes) = replay_ops(&ops);
        res.probes.merge(&probes);
        res.probes.add(if origin == "synthetic" { "synthetic_histories" } else { "recorded_histories" }, 1);
        res.probes.add("operations_replayed", ops.len() as u64);
        let sj = scenario_json(&ops, &origin);
        let h = hash_str(&sj.to_string());
        res.log_hash = h;
        if ops.iter().any(|o| matches!(o, Op::Retrieve { .. })) && ops.iter().any(|o| matches!(o, Op::Store { .. })) {
            res.distinct.push(h);
        }
        if let Some((class, detail)) = viol {
            res.violations.push(Violation {
                prop: "C15".into(),
                class,
                detail,
                scenario: sj,
                sim_index: i,
                sim_seed: seed,
                log_hash: h,
            });
        }
        if i == 2 || i == 4 {
            res.sample = Some(json!({"origin": origin, "ops": ops.iter().take(12).map(|o| o.to_json()).collect::<Vec<_>>(), "length": ops.len()}));
        } else if i == 0 {
            res.sample = Some(json!({"origin": origin, "length": ops.len(), "first_ops": ops.iter().take(6).map(|o| o.to_json()).collect::<Vec<_>>()}));
        }
        res
    });
    let ev = Evidence {
        level: "exploration",
        rule: "Four kinds of history. Huge (one per quick batch, more in thorough): a fresh table filled with 0.07-4.3 million distinct keys, then 20 000 bracketed stores (shallower, equal, deeper) and lookups on cached keys. In-situ through the protocol (one twelfth): position / go depth commands on one engine process with `setoption name Hash value N` lines in between (sizes alternating, so that an earlier size comes back), every store judged as below. In-situ (one sixth): 2-5 searches on ONE engine without reset (same position at other depths, a successor whose tree overlaps, clock-interrupted searches, refused stores); every store the searcher makes is judged by what the engine's own table shows for that key right before and right after the call (a shallower result must not replace a deeper one, an equal or deeper one must, nothing else may appear), and after each search the table may hold nothing but what those stores left. Replayed: histories of store/retrieve calls, one third recorded from simulated searches on one table (a clock-interrupted search followed by two completed ones, optionally with refused stores), the rest synthetic over 1-6 keys (some differing only in their high bits) with depths 0..4 (one history in five over the whole depth byte: 31, 32, 63, 64, 127, 128, 255, ...), many ties and scores that include mate values and window edges. Each history is replayed call by call on a fresh real TranspositionTable, every store bracketed by a lookup of its key; a lookup must show nothing or exactly the data last seen accepted for that key, and each store must obey the replacement rule. A table that forgets entries is tolerated (counted in entries_lost_*), as the property allows a lookup to return nothing. A case = a history with at least one store and one retrieve; distinct by content hash. One synthetic history in four replaces the table one to three times on the way (new table built next to or after the old one, as ucinewgame does): the new table was never given anything. One synthetic history in eight uses the keys 0, all-ones and 1.".into(),
        extra: serde_json::Map::new(),
        assumptions: vec![
            "the table is a deterministic function of its call sequence, so replaying recorded calls is equivalent to observing returns inside the search; the in-situ audit covers what the engine does to its table between calls (per-search housekeeping)".into(),
            "every store goes through TranspositionTable::store (the observation point of the in-situ audit)".into(),
            "the synthetic part is model-based sequence testing, not fault injection: the table has no schedule or fault of its own".into(),
        ],
        exhaustive: None,
    };
    conclude(ctx, &rep, ev, &replay_value, &shrink_value)
}

pub fn replay(path: &std::path::Path) -> i32 {
    let doc: Value = read_replay(path);
    let vs = replay_value(&doc["scenario"]);
    conclude_replay("C15", &vs, doc["class"].as_str())
}
