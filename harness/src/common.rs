//! Shared plumbing: batch runner, violation handling (minimise -> replay file -> replay
//! in a fresh process -> known-findings filter), evidence writer.

use serde_json::{json, Map, Value};
use std::collections::BTreeMap;
use std::path::{Path, PathBuf};
use std::sync::atomic::{AtomicU64, Ordering};
use std::sync::Mutex;
use std::time::Instant;

#[derive(Clone, Copy, PartialEq, Eq, Debug)]
pub enum Tier {
    Quick,
    Thorough,
}

impl Tier {
    pub fn name(&self) -> &'static str {
        match self {
            Tier::Quick => "quick",
            Tier::Thorough => "thorough",
        }
    }
}

#[derive(Clone, Debug)]
pub struct Ctx {
    pub prop: String,
    pub tier: Tier,
    pub seed: u64,
    pub workers: usize,
    pub verif_dir: PathBuf,
    /// Multiplier on the batch size (VERIF_SCALE, default 1.0) for background sweeps.
    pub scale: f64,
    pub started: Instant,
}

impl Ctx {
    pub fn n(&self, quick: u64, thorough: u64) -> u64 {
        let base = match self.tier {
            Tier::Quick => quick,
            Tier::Thorough => thorough,
        };
        ((base as f64 * self.scale).ceil() as u64).max(1)
    }
}

/// One violation found by a sim, with the explicit (editable) scenario that produced it.
#[derive(Clone, Debug)]
pub struct Violation {
    pub prop: String,
    /// Violation class: stable short identifier used for minimisation ("same violation
    /// class persists") and for matching known findings.
    pub class: String,
    pub detail: String,
    pub scenario: Value,
    pub sim_index: u64,
    pub sim_seed: u64,
    pub log_hash: u64,
}

/// Counters merged across sims (probes, fault counts, ...).
#[derive(Clone, Debug, Default)]
pub struct Counters(pub BTreeMap<String, u64>);

impl Counters {
    pub fn add(&mut self, k: &str, v: u64) {
        *self.0.entry(k.to_string()).or_insert(0) += v;
    }
    pub fn max(&mut self, k: &str, v: u64) {
        let e = self.0.entry(k.to_string()).or_insert(0);
        if v > *e {
            *e = v;
        }
    }
    pub fn merge(&mut self, o: &Counters) {
        for (k, v) in &o.0 {
            if k.starts_with("max_") {
                self.max(k, *v);
            } else {
                self.add(k, *v);
            }
        }
    }
    pub fn get(&self, k: &str) -> u64 {
        self.0.get(k).copied().unwrap_or(0)
    }
    pub fn to_json(&self) -> Value {
        let mut m = Map::new();
        for (k, v) in &self.0 {
            m.insert(k.clone(), json!(v));
        }
        Value::Object(m)
    }
}

/// What one sim reports back.
#[derive(Clone, Debug, Default)]
pub struct SimResult {
    pub evaluations: u64,
    /// Hashes of the distinct non-trivial cases this sim covered (deduplicated globally).
    pub distinct: Vec<u64>,
    pub probes: Counters,
    pub faults: Counters,
    pub sim_time_ns: u64,
    pub log_hash: u64,
    pub violations: Vec<Violation>,
    pub sample: Option<Value>,
}

pub struct BatchReport {
    pub sims: u64,
    pub evaluations: u64,
    pub distinct: u64,
    pub probes: Counters,
    pub faults: Counters,
    pub sim_time_ns: u64,
    pub violations: Vec<Violation>,
    pub samples: Vec<Value>,
    /// Hash over the per-sim event-log hashes in index order (determinism witness).
    pub batch_hash: u64,
    pub per_sim_hash: Vec<u64>,
}

pub const WORKER_STACK: usize = 1 << 30;

/// The running check, for the hang watchdog (set once by main).
pub static BATCH_CTX: std::sync::OnceLock<Ctx> = std::sync::OnceLock::new();

/// A single engine call (one command, one search) from which the simulator sees no event
/// (node entered, clock read, input read, output written) for this many wall seconds is
/// taken to hang: an engine loop that does none of these is invisible to the simulator's
/// step caps. A healthy call produces events all the time, however slow the machine is; the
/// gap between two events is microseconds of engine work.
pub fn hang_limit_secs() -> u64 {
    std::env::var("VERIF_HANG_SECS").ok().and_then(|s| s.parse().ok()).unwrap_or(300)
}

fn watchdog(done: std::sync::Arc<std::sync::atomic::AtomicBool>) {
    let limit = hang_limit_secs();
    if limit == 0 {
        return;
    }
    // per thread: (event count last seen, when it last changed or the call began)
    let mut seen: std::collections::HashMap<std::thread::ThreadId, (u64, Instant)> = std::collections::HashMap::new();
    loop {
        std::thread::sleep(std::time::Duration::from_secs(2));
        if done.load(Ordering::SeqCst) {
            return;
        }
        let hung: Option<u64> = {
            let g = crate::simworld::ENGINE_CALLS.lock().unwrap_or_else(|e| e.into_inner());
            // a call hangs when the simulator has seen no event from it (node, clock read,
            // input, output) for the limit - not merely when it takes long
            let now = Instant::now();
            let mut hung = None;
            seen.retain(|k, _| g.iter().any(|e| e.0 == *k));
            for e in g.iter() {
                let beat = e.3.load(Ordering::Relaxed);
                let entry = seen.entry(e.0).or_insert((beat, e.2));
                if entry.0 != beat {
                    *entry = (beat, now);
                } else if entry.1 < e.2 {
                    // a new call on this thread with the same count: the quiet period starts with the call
                    entry.1 = e.2;
                }
                if now.duration_since(entry.1).as_secs() > limit {
                    hung = Some(hung.map_or(e.1, |h: u64| h.min(e.1)));
                }
            }
            hung
        };
        if let Some(sim) = hung {
            if std::env::var("VERIF_HANG_CHILD").is_ok() {
                // replay of a hang: just say so
                std::process::exit(3);
            }
            let code = report_hang(sim);
            std::process::exit(code);
        }
    }
}

/// Called by the watchdog: sim `sim` of the running batch has been inside one engine call
/// for longer than the limit. The replay is "run that sim of that batch again".
fn report_hang(sim: u64) -> i32 {
    let Some(ctx) = BATCH_CTX.get() else {
        eprintln!("harness error: an engine call does not return (sim {}), no batch context", sim);
        return 2;
    };
    let limit = hang_limit_secs();
    eprintln!("sim {} of this batch: no event from the engine for more than {} s inside one engine call", sim, limit);
    let known = load_known_findings(&ctx.verif_dir);
    if let Some(k) = known.iter().find(|k| k.property == ctx.prop && k.class == "engine_hangs") {
        println!("KNOWN-FINDING: property={} class=engine_hangs {}", ctx.prop, k.what);
        println!("harness error: batch cannot complete (a sim hangs); stopping");
        return 2;
    }
    let dir = ctx.verif_dir.join("replays");
    let _ = std::fs::create_dir_all(&dir);
    let path = dir.join(format!("{}-{}-{}-engine_hangs.json", ctx.prop, ctx.seed, sim));
    let doc = json!({
        "property": ctx.prop,
        "class": "engine_hangs",
        "detail": format!("sim {} of the batch (seed {}, tier {}, scale {}): no event from the engine for {} s of wall time inside one engine call: it loops without entering a node, reading the clock or doing I/O", sim, ctx.seed, ctx.tier.name(), ctx.scale, limit),
        "hang": {"batch_seed": ctx.seed, "sim_index": sim, "tier": ctx.tier.name(), "scale": ctx.scale},
        "replay_cmd": format!("./check {} --replay {}", ctx.prop, path.display()),
    });
    if std::fs::write(&path, serde_json::to_string_pretty(&doc).unwrap() + "\n").is_err() {
        eprintln!("harness error: cannot write {}", path.display());
        return 2;
    }
    // the replay must hang too, in a fresh process
    let exe = std::env::current_exe().expect("current_exe");
    let out = std::process::Command::new(exe).arg("check").arg(&ctx.prop).arg("--replay").arg(&path).env("VERIF_DIR", &ctx.verif_dir).output();
    let ok = match out {
        Ok(o) => o.status.code() == Some(1) && String::from_utf8_lossy(&o.stdout).lines().any(|l| l.trim().starts_with("REPLAYED class=engine_hangs")),
        Err(_) => false,
    };
    if !ok {
        eprintln!("harness error: sim {} hung in the batch, but re-running it alone in a fresh process did not hang", sim);
        return 2;
    }
    println!("[{}] tier={} seed={} batch not completed: sim {} hangs", ctx.prop, ctx.tier.name(), ctx.seed, sim);
    println!("  class=engine_hangs detail={}", doc["detail"].as_str().unwrap_or(""));
    println!("VIOLATION property={} replay={}", ctx.prop, path.display());
    1
}

/// Replay of a hang: re-runs one sim of a batch in a child process and waits for it.
pub fn replay_hang(prop: &str, doc: &Value) -> i32 {
    let h = &doc["hang"];
    let limit = hang_limit_secs().max(1);
    let exe = std::env::current_exe().expect("current_exe");
    let out = std::process::Command::new(exe)
        .args(["check", prop, "--tier", h["tier"].as_str().unwrap_or("quick")])
        .env("VERIF_SEED", h["batch_seed"].as_u64().unwrap_or(1).to_string())
        .env("VERIF_ONLY_SIM", h["sim_index"].as_u64().unwrap_or(0).to_string())
        .env("VERIF_SCALE", h["scale"].as_f64().unwrap_or(1.0).to_string())
        .env("VERIF_HANG_SECS", limit.to_string())
        .env("VERIF_HANG_CHILD", "1")
        .env("VERIF_HASH_ONLY", "1")
        .stdout(std::process::Stdio::null())
        .stderr(std::process::Stdio::null())
        .status();
    // the child runs the same progress-based watchdog and exits with status 3 when the sim
    // stands still for the limit
    match out {
        Ok(st) if st.code() == Some(3) => {
            println!("REPLAYED class=engine_hangs event_log_hash=0000000000000000");
            println!("  detail=sim {} of batch seed {}: no event from the engine for {} s inside one engine call", h["sim_index"], h["batch_seed"], limit);
            1
        }
        Ok(_) => {
            println!("REPLAY property={} no violation reproduced (the sim returned)", prop);
            0
        }
        Err(e) => {
            eprintln!("harness error: cannot spawn the replay: {}", e);
            2
        }
    }
}

/// Runs sims 0..n on `workers` threads; results are aggregated by sim index so that the
/// outcome does not depend on the worker count or on completion order.
pub fn run_batch<F>(n: u64, workers: usize, f: F) -> BatchReport
where
    F: Fn(u64) -> SimResult + Sync,
{
    let next = AtomicU64::new(0);
    let results: Mutex<Vec<Option<SimResult>>> = Mutex::new((0..n).map(|_| None).collect());
    let done = std::sync::Arc::new(std::sync::atomic::AtomicBool::new(false));
    {
        let d = done.clone();
        std::thread::spawn(move || watchdog(d));
    }
    std::thread::scope(|s| {
        for w in 0..workers.max(1) {
            let next = &next;
            let results = &results;
            let f = &f;
            std::thread::Builder::new()
                .name(format!("sim-worker-{}", w))
                .stack_size(WORKER_STACK)
                .spawn_scoped(s, move || loop {
                    let i = next.fetch_add(1, Ordering::SeqCst);
                    if i >= n {
                        break;
                    }
                    let t0 = std::time::Instant::now();
                    // debugging aid: VERIF_ONLY_SIM=<index> runs just that sim of the batch
                    if let Ok(only) = std::env::var("VERIF_ONLY_SIM") {
                        if only.parse::<u64>().ok() != Some(i) {
                            results.lock().unwrap()[i as usize] = Some(SimResult::default());
                            continue;
                        }
                    }
                    crate::simworld::CURRENT_SIM.with(|c| c.set(i));
                    let r = f(i);
                    if std::env::var("VERIF_DEBUG").is_ok() {
                        eprintln!("sim {} took {:.2}s evals={}", i, t0.elapsed().as_secs_f64(), r.evaluations);
                    }
                    results.lock().unwrap()[i as usize] = Some(r);
                })
                .expect("spawn worker");
        }
    });
    done.store(true, Ordering::SeqCst);
    let results = results.into_inner().unwrap();
    let mut rep = BatchReport {
        sims: n,
        evaluations: 0,
        distinct: 0,
        probes: Counters::default(),
        faults: Counters::default(),
        sim_time_ns: 0,
        violations: vec![],
        samples: vec![],
        batch_hash: crate::rng::FNV_INIT,
        per_sim_hash: vec![],
    };
    let mut distinct = std::collections::HashSet::new();
    for r in results.into_iter() {
        let r = r.expect("sim result missing");
        rep.evaluations += r.evaluations;
        for d in r.distinct {
            distinct.insert(d);
        }
        rep.probes.merge(&r.probes);
        rep.faults.merge(&r.faults);
        rep.sim_time_ns += r.sim_time_ns;
        rep.batch_hash = crate::rng::fnv1a(rep.batch_hash, &r.log_hash.to_le_bytes());
        rep.per_sim_hash.push(r.log_hash);
        rep.violations.extend(r.violations);
        if let Some(s) = r.sample {
            if rep.samples.len() < 5 {
                rep.samples.push(s);
            }
        }
    }
    rep.distinct = distinct.len() as u64;
    rep
}

// ---------------------------------------------------------------------------------
// Known findings
// ---------------------------------------------------------------------------------

#[derive(Clone, Debug)]
pub struct KnownFinding {
    pub property: String,
    pub class: String,
    pub what: String,
}

pub fn load_known_findings(verif_dir: &Path) -> Vec<KnownFinding> {
    let p = verif_dir.join("known_findings.json");
    let Ok(text) = std::fs::read_to_string(&p) else {
        return vec![];
    };
    let v: Value = match serde_json::from_str(&text) {
        Ok(v) => v,
        Err(e) => {
            eprintln!("harness error: known_findings.json does not parse: {}", e);
            std::process::exit(2);
        }
    };
    let mut out = vec![];
    if let Some(arr) = v.get("findings").and_then(|a| a.as_array()) {
        for f in arr {
            out.push(KnownFinding {
                property: f["property"].as_str().unwrap_or("").to_string(),
                class: f["class"].as_str().unwrap_or("").to_string(),
                what: f["what"].as_str().unwrap_or("").to_string(),
            });
        }
    }
    out
}

// ---------------------------------------------------------------------------------
// Evidence
// ---------------------------------------------------------------------------------

pub struct Evidence {
    pub level: &'static str,
    pub rule: String,
    pub extra: Map<String, Value>,
    pub assumptions: Vec<String>,
    pub exhaustive: Option<bool>,
}

pub fn write_evidence(ctx: &Ctx, rep: &BatchReport, ev: Evidence, violations: usize) {
    let wall = ctx.started.elapsed().as_secs_f64();
    let mut cov = Map::new();
    cov.insert("evaluations".into(), json!(rep.evaluations));
    cov.insert("distinct_nontrivial".into(), json!(rep.distinct));
    cov.insert("rule".into(), json!(ev.rule));
    cov.insert("samples".into(), Value::Array(rep.samples.clone()));
    if let Some(x) = ev.exhaustive {
        cov.insert("exhaustive".into(), json!(x));
    }
    cov.insert("simulated_runs".into(), json!(rep.sims));
    cov.insert(
        "simulated_runs_per_hour".into(),
        json!(((rep.sims as f64) / wall.max(1e-9) * 3600.0).round()),
    );
    cov.insert(
        "simulated_time_s".into(),
        json!(rep.sim_time_ns as f64 / 1e9),
    );
    cov.insert("faults_fired".into(), rep.faults.to_json());
    cov.insert("reach_probes".into(), rep.probes.to_json());
    cov.insert("workers".into(), json!(ctx.workers));
    cov.insert(
        "batch_event_log_hash".into(),
        json!(format!("{:016x}", rep.batch_hash)),
    );
    cov.insert(
        "components_real".into(),
        json!("every module of <repo>/src compiled in place (uci, search, move_gen, board, fen, eval, timer logic, transposition, zobrist, repetition, killers, history)"),
    );
    cov.insert(
        "components_stubbed".into(),
        json!("monotonic clock source, stdin byte stream, stdout sink, process::exit, thread_rng entropy (src/verif_seam.rs); main.rs is covered only by the real-binary fidelity runs"),
    );
    for (k, v) in ev.extra {
        cov.insert(k, v);
    }
    let doc = json!({
        "property_id": ctx.prop,
        "tier": ctx.tier.name(),
        "seed": ctx.seed,
        "level": ev.level,
        "coverage": Value::Object(cov),
        "assumptions": ev.assumptions,
        "wall_s": wall,
        "violations": violations,
    });
    let dir = ctx.verif_dir.join("evidence");
    let _ = std::fs::create_dir_all(&dir);
    let path = dir.join(format!("{}.json", ctx.prop));
    if let Err(e) = std::fs::write(&path, serde_json::to_string_pretty(&doc).unwrap() + "\n") {
        eprintln!("harness error: cannot write {}: {}", path.display(), e);
        std::process::exit(2);
    }
}

// ---------------------------------------------------------------------------------
// Violation handling
// ---------------------------------------------------------------------------------

/// A check's replay function: runs one explicit scenario, returns the violations it shows.
pub type ReplayFn<'a> = &'a dyn Fn(&Value) -> Vec<Violation>;
/// A check's shrinker: candidate scenarios that are simpler than the given one.
pub type ShrinkFn<'a> = &'a dyn Fn(&Value) -> Vec<Value>;

/// Greedy structure-aware minimisation: keep a candidate iff the same violation class
/// still shows; iterate to a fixpoint (bounded).
pub fn minimise(v: &Violation, replay: ReplayFn, shrink: ShrinkFn, budget: usize) -> Violation {
    let mut best = v.clone();
    let mut spent = 0usize;
    // minimisation is a convenience: it also ends after a while of wall time (scenarios that
    // take a minute each would otherwise hold the verdict back for an hour). How far it got
    // does not affect the verdict; the file that is written is confirmed in a fresh process.
    let t0 = Instant::now();
    let wall_limit = std::env::var("VERIF_MINIMISE_SECS").ok().and_then(|x| x.parse::<u64>().ok()).unwrap_or(120);
    // candidates already tried (a shrinker may propose the scenario itself, e.g. "the
    // second half" of a one-element list: accepting that would spend the budget in place)
    let mut seen: std::collections::HashSet<String> = std::collections::HashSet::new();
    seen.insert(best.scenario.to_string());
    loop {
        let mut improved = false;
        for cand in shrink(&best.scenario) {
            if spent >= budget || t0.elapsed().as_secs() > wall_limit {
                return best;
            }
            if !seen.insert(cand.to_string()) {
                continue;
            }
            spent += 1;
            let vs = replay(&cand);
            if let Some(found) = vs.into_iter().find(|x| x.class == best.class) {
                let mut nv = found;
                nv.sim_index = best.sim_index;
                nv.sim_seed = best.sim_seed;
                best = nv;
                improved = true;
                break;
            }
        }
        if !improved {
            return best;
        }
    }
}

pub fn replay_path(ctx: &Ctx, v: &Violation) -> PathBuf {
    let dir = ctx.verif_dir.join("replays");
    let _ = std::fs::create_dir_all(&dir);
    let class: String = v
        .class
        .chars()
        .map(|c| if c.is_ascii_alphanumeric() { c } else { '_' })
        .collect();
    dir.join(format!(
        "{}-{}-{}-{}.json",
        v.prop, ctx.seed, v.sim_index, class
    ))
}

pub fn write_replay(ctx: &Ctx, v: &Violation, original: &Violation) -> PathBuf {
    let path = replay_path(ctx, v);
    let doc = json!({
        "property": v.prop,
        "class": v.class,
        "detail": v.detail,
        "batch_seed": ctx.seed,
        "sim_index": v.sim_index,
        "sim_seed": v.sim_seed,
        "event_log_hash": format!("{:016x}", v.log_hash),
        "scenario": v.scenario,
        "unminimised_scenario": original.scenario,
        "replay_cmd": format!("./check {} --replay {}", v.prop, path.display()),
    });
    std::fs::write(&path, serde_json::to_string_pretty(&doc).unwrap() + "\n").expect("write replay");
    path
}

/// Replays `path` in a fresh process; true iff that process reproduces the same class
/// with the same event-log hash.
pub fn confirm_in_fresh_process(ctx: &Ctx, path: &Path, v: &Violation) -> bool {
    // classes that compare against real executions (real key draws) are re-executions, not
    // deterministic replays: allow a few attempts
    let attempts = if v.class.starts_with("real_binary") { 4 } else { 1 };
    for _ in 0..attempts {
        if confirm_once(ctx, path, v, true) {
            return true;
        }
    }
    // An engine whose behaviour depends on something outside the simulator's seams (the
    // per-process hasher state of std's HashMap is the one source left outside) cannot
    // replay with the same event log. If two more fresh processes both show the same
    // violation class, it is reported all the same, and said so.
    if confirm_once(ctx, path, v, false) && confirm_once(ctx, path, v, false) {
        eprintln!(
            "note: {} reproduces class {} in fresh processes, but with different event logs from run to run: the engine's behaviour depends on state outside the simulator's seams",
            path.display(),
            v.class
        );
        return true;
    }
    false
}

/// Runs the scenario of `v` in a fresh process; Some(violation as that process reported it:
/// same class, its detail and event-log hash) iff the class shows there.
pub fn run_in_fresh_process(ctx: &Ctx, v: &Violation) -> Option<Violation> {
    let dir = ctx.verif_dir.join("replays");
    let _ = std::fs::create_dir_all(&dir);
    let path = dir.join(format!(".candidate-{}-{}.json", v.prop, std::process::id()));
    let doc = json!({"property": v.prop, "class": v.class, "scenario": v.scenario});
    std::fs::write(&path, doc.to_string()).ok()?;
    let exe = std::env::current_exe().ok()?;
    let out = std::process::Command::new(exe)
        .arg("check")
        .arg(&ctx.prop)
        .arg("--replay")
        .arg(&path)
        .env("VERIF_DIR", &ctx.verif_dir)
        .env("VERIF_REPLAY_CHILD", "1")
        .output();
    let _ = std::fs::remove_file(&path);
    let out = out.ok()?;
    if out.status.code() != Some(1) {
        return None;
    }
    let text = String::from_utf8_lossy(&out.stdout).to_string();
    let want_class = format!("REPLAYED class={} event_log_hash=", v.class);
    let mut lines = text.lines();
    while let Some(l) = lines.next() {
        if let Some(h) = l.trim().strip_prefix(&want_class) {
            let log_hash = u64::from_str_radix(h.trim(), 16).ok()?;
            let detail = lines.next().map(|d| d.trim().trim_start_matches("detail=").to_string()).unwrap_or_default();
            let mut nv = v.clone();
            nv.log_hash = log_hash;
            nv.detail = detail;
            return Some(nv);
        }
    }
    None
}

/// Greedy minimisation with one fresh process per candidate (slow; small budget).
pub fn minimise_fresh(ctx: &Ctx, v: &Violation, shrink: ShrinkFn, budget: usize) -> Violation {
    let mut best = v.clone();
    let mut spent = 0usize;
    let mut seen: std::collections::HashSet<String> = std::collections::HashSet::new();
    seen.insert(best.scenario.to_string());
    loop {
        let mut improved = false;
        for cand in shrink(&best.scenario) {
            if spent >= budget {
                return best;
            }
            if !seen.insert(cand.to_string()) {
                continue;
            }
            spent += 1;
            let mut c = best.clone();
            c.scenario = cand;
            if let Some(found) = run_in_fresh_process(ctx, &c) {
                best = found;
                improved = true;
                break;
            }
        }
        if !improved {
            return best;
        }
    }
}

fn confirm_once(ctx: &Ctx, path: &Path, v: &Violation, exact: bool) -> bool {
    let exe = std::env::current_exe().expect("current_exe");
    let out = std::process::Command::new(exe)
        .arg("check")
        .arg(&ctx.prop)
        .arg("--replay")
        .arg(path)
        .env("VERIF_DIR", &ctx.verif_dir)
        .env("VERIF_REPLAY_CHILD", "1")
        .output();
    let Ok(out) = out else { return false };
    let text = String::from_utf8_lossy(&out.stdout);
    let want = format!(
        "REPLAYED class={} event_log_hash={:016x}",
        v.class, v.log_hash
    );
    let want_class = format!("REPLAYED class={} ", v.class);
    out.status.code() == Some(1) && text.lines().any(|l| if exact { l.trim() == want } else { l.trim_start().starts_with(&want_class) })
}

/// Standard tail of every check: minimise one violation per class, write replay files,
/// confirm them in a fresh process, filter known findings, print the verdict lines.
/// Returns the process exit code.
pub fn conclude(
    ctx: &Ctx,
    rep: &BatchReport,
    ev: Evidence,
    replay: ReplayFn,
    shrink: ShrinkFn,
) -> i32 {
    if std::env::var("VERIF_HASH_ONLY").is_ok() {
        // determinism self-test: only the per-sim event-log hashes, no files written
        for (i, h) in rep.per_sim_hash.iter().enumerate() {
            println!("PERSIM {} {:016x}", i, h);
        }
        println!("BATCHHASH {:016x} sims={} evaluations={} violations={}", rep.batch_hash, rep.sims, rep.evaluations, rep.violations.len());
        return 0;
    }
    let known = load_known_findings(&ctx.verif_dir);
    // Per class the violations in sim order: the first that reproduces from its explicit
    // scenario (in this process, then minimised, then in a fresh process) is the one reported.
    let mut by_class: BTreeMap<String, Vec<&Violation>> = BTreeMap::new();
    for v in &rep.violations {
        by_class.entry(v.class.clone()).or_default().push(v);
    }
    for vs in by_class.values_mut() {
        vs.sort_by_key(|v| v.sim_index);
    }
    let mut unlisted = 0usize;
    let mut lines: Vec<String> = vec![];
    // classes seen in the batch of which no instance could be reproduced from its explicit
    // scenario: a VIOLATION line is never printed for those
    let mut unconfirmed: Vec<String> = vec![];
    for (class, vs) in &by_class {
        if let Some(k) = known
            .iter()
            .find(|k| k.property == ctx.prop && &k.class == class)
        {
            lines.push(format!(
                "KNOWN-FINDING: property={} class={} {}",
                ctx.prop, class, k.what
            ));
            continue;
        }
        let mut reported = false;
        // up to five instances per kind of scenario (the "origin" field, where a check has
        // several kinds): a class may be seen in one kind through state that leaks between the
        // simulated processes of this OS process (not replayable) and in another kind
        // within one scenario (replayable)
        let mut per_origin: BTreeMap<String, usize> = BTreeMap::new();
        let candidates: Vec<&&Violation> = vs
            .iter()
            .filter(|v| {
                let o = v.scenario.get("origin").and_then(|x| x.as_str()).unwrap_or("").to_string();
                let n = per_origin.entry(o).or_insert(0);
                *n += 1;
                *n <= 40
            })
            .take(120)
            .collect();
        // re-running an instance in this process is cheap; minimising and confirming it in a
        // fresh process is not: at most six instances get that far
        let mut expensive_attempts = 0;
        let mut not_reproduced = 0;
        for v in candidates {
            // Re-run the unminimised scenario first: it has to reproduce from its explicit form.
            let first = replay(&v.scenario);
            let Some(mut base) = first.into_iter().find(|x| &x.class == class) else {
                not_reproduced += 1;
                if not_reproduced <= 3 {
                    eprintln!(
                        "note: violation class {} of sim {} does not reproduce from its explicit scenario (state outside the simulated process? engine statics are shared by all sims of this OS process)",
                        class, v.sim_index
                    );
                    eprintln!("scenario: {}", v.scenario);
                }
                continue;
            };
            base.sim_index = v.sim_index;
            base.sim_seed = v.sim_seed;
            expensive_attempts += 1;
            if expensive_attempts > 6 {
                break;
            }
            let min = minimise(&base, replay, shrink, 400);
            let path = write_replay(ctx, &min, v);
            let mut min = min;
            let mut path = path;
            if !confirm_in_fresh_process(ctx, &path, &min) {
                eprintln!(
                    "note: replay file {} did not reproduce class {} with the recorded event-log hash in a fresh process",
                    path.display(),
                    class
                );
                let _ = std::fs::remove_file(&path);
                // The scenario was minimised inside this OS process. If the engine keeps state
                // outside the simulated process (statics, thread-locals), earlier runs of the
                // minimiser may have supplied part of the history, and the minimised scenario
                // is no longer self-contained. Fall back: does the unminimised scenario show
                // the class in a fresh process? Then minimise there, one process per candidate.
                let Some(fresh) = run_in_fresh_process(ctx, &base) else { continue };
                eprintln!("note: the unminimised scenario of sim {} reproduces class {} in a fresh process; minimising with one fresh process per candidate", v.sim_index, class);
                min = minimise_fresh(ctx, &fresh, shrink, 60);
                path = write_replay(ctx, &min, v);
                if !confirm_in_fresh_process(ctx, &path, &min) {
                    let _ = std::fs::remove_file(&path);
                    continue;
                }
            }
            unlisted += 1;
            reported = true;
            lines.push(format!("  class={} detail={}", class, min.detail));
            lines.push(format!(
                "VIOLATION property={} replay={}",
                ctx.prop,
                path.display()
            ));
            break;
        }
        if !reported {
            unconfirmed.push(class.clone());
        }
    }
    if unlisted == 0 && !unconfirmed.is_empty() {
        // something was seen, nothing replays: that is an error of the machinery (or engine
        // state the simulator does not own), never reported as a violation and never as a pass
        eprintln!(
            "harness error: violation class(es) {:?} were seen in the batch but no instance reproduces from its explicit scenario in a fresh process",
            unconfirmed
        );
        return 2;
    }
    for c in &unconfirmed {
        lines.push(format!("  note: class={} was also seen in the batch but did not replay; not reported", c));
    }
    write_evidence(ctx, rep, ev, rep.violations.len());
    println!(
        "[{}] tier={} seed={} sims={} evaluations={} distinct_nontrivial={} violations={} classes={} wall={:.1}s",
        ctx.prop,
        ctx.tier.name(),
        ctx.seed,
        rep.sims,
        rep.evaluations,
        rep.distinct,
        rep.violations.len(),
        by_class.len(),
        ctx.started.elapsed().as_secs_f64()
    );
    for l in lines {
        println!("{}", l);
    }
    if unlisted > 0 {
        1
    } else {
        println!("OK property={} held on everything explored", ctx.prop);
        0
    }
}

/// Replay-mode tail: prints what the replayed scenario showed.
pub fn conclude_replay(prop: &str, vs: &[Violation], want_class: Option<&str>) -> i32 {
    let mut code = 0;
    for v in vs {
        if want_class.map(|c| c == v.class).unwrap_or(true) {
            println!(
                "REPLAYED class={} event_log_hash={:016x}",
                v.class, v.log_hash
            );
            println!("  detail={}", v.detail);
            code = 1;
        }
    }
    if code == 0 {
        println!("REPLAY property={} no violation reproduced", prop);
    }
    code
}

pub fn hash_str(s: &str) -> u64 {
    crate::rng::fnv1a(crate::rng::FNV_INIT, s.as_bytes())
}

pub fn read_replay(path: &Path) -> Value {
    let text = std::fs::read_to_string(path).unwrap_or_else(|e| {
        eprintln!("harness error: cannot read {}: {}", path.display(), e);
        std::process::exit(2)
    });
    serde_json::from_str(&text).unwrap_or_else(|e| {
        eprintln!("harness error: {} does not parse: {}", path.display(), e);
        std::process::exit(2)
    })
}
