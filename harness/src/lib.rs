//! The engine, compiled in place from the repository's working tree, with its
//! standard output captured: the two macros below shadow `std`'s inside every engine
//! module (textual macro scope), and route to the installed simulator.
#![allow(dead_code, unused_imports, unused_macros, clippy::all)]

macro_rules! println {
    () => { $crate::verif_seam::out("\n") };
    ($($arg:tt)*) => {{
        let mut s = ::std::format!($($arg)*);
        s.push('\n');
        $crate::verif_seam::out(&s)
    }};
}
macro_rules! print {
    ($($arg:tt)*) => { $crate::verif_seam::out(&::std::format!($($arg)*)) };
}

include!(concat!(env!("OUT_DIR"), "/engine_mods.rs"));

pub const REPO_PATH: &str = env!("FLOUNDER_REPO_PATH");
