//! C11 — the position hash depends on the position and nothing else (weak claim).
//! What applies of the technique: the randomness seam (every key set drawn at start-up is
//! a simulator-chosen seed) and histories (the same position reached by different move
//! orders inside enumerated game trees). The rest is a monitor over everything visited.

use crate::common::*;
use crate::gen;
use crate::rng::{derive, Rng};
use crate::rules::*;
use crate::simworld::*;
use crate::sworld::with_bench;
use engine::board::Board;
use serde_json::{json, Value};
use std::collections::HashMap;

/// A board given by a FEN plus moves applied through the engine's own make_move.
#[derive(Clone, Debug)]
pub struct BoardSpec {
    pub fen: String,
    pub moves: Vec<String>,
}

impl BoardSpec {
    fn to_json(&self) -> Value {
        json!({"fen": self.fen, "moves": self.moves})
    }
    fn from_json(v: &Value) -> Option<BoardSpec> {
        Some(BoardSpec {
            fen: v["fen"].as_str()?.to_string(),
            moves: v["moves"].as_array().map(|a| a.iter().map(|s| s.as_str().unwrap_or("").to_string()).collect()).unwrap_or_default(),
        })
    }
    /// (engine board, rules-model position)
    fn build(&self) -> Option<(Board, Pos)> {
        let mut p = Pos::from_fen(&self.fen).ok()?;
        let mut b = Board::new(&self.fen);
        for m in &self.moves {
            let rm = p.find_uci(m)?;
            let em = with_bench(|bn| bn.reference.gen.generate_moves(&b).into_iter().find(|x| x.to_algebraic() == *m))?;
            b.make_move(&em);
            p = p.make(&rm);
        }
        Some((b, p))
    }
}

/// Explicit replay scenario: a key seed and a short *sequence* of boards hashed in this
/// order with one key table (the order matters if the hash function keeps state).
#[derive(Clone, Debug)]
pub struct PairScenario {
    pub key_seed: u64,
    pub boards: Vec<BoardSpec>,
    /// non-empty: the boards are hashed through one engine (Searcher), before and after a
    /// depth-1 search of each of these roots
    pub search_roots: Vec<BoardSpec>,
}

fn hash_under(key_seed: u64, boards: &[Board]) -> (Vec<u64>, u64) {
    let mut st = SimState::new(key_seed, 0);
    st.ev(&format!("cfg c11 key_seed={}", key_seed));
    let proc_ = Proc::start(st, None);
    let (_, z) = proc_.run(engine::zobrist::ZobristTable::new);
    let z = z.expect("key table");
    let hs: Vec<u64> = boards.iter().map(|b| z.hash(b)).collect();
    let mut st = proc_.st.borrow_mut();
    for h in &hs {
        st.ev(&format!("hash {:016x}", h));
    }
    let lh = st.log_hash;
    (hs, lh)
}

pub fn replay_pair(sc: &PairScenario) -> Vec<(String, String, u64)> {
    let built: Vec<(Board, Pos)> = match sc.boards.iter().map(|b| b.build()).collect::<Option<Vec<_>>>() {
        Some(v) => v,
        None => return vec![],
    };
    let boards: Vec<Board> = built.iter().map(|x| x.0).collect();
    let (hs, lh) = hash_under(sc.key_seed, &boards);
    // every class that shows, first instance each (which one shows first may differ from
    // the batch, where thousands of other boards were hashed in between)
    let mut out: Vec<(String, String, u64)> = vec![];
    for i in 0..built.len() {
        for k in 0..i {
            let same_pos = built[k].1.key() == built[i].1.key();
            if same_pos && hs[k] != hs[i] && !out.iter().any(|o| o.0 == "same_position_two_hashes") {
                out.push(("same_position_two_hashes".into(), format!("{:?} and {:?} are the same position but hash to {:016x} and {:016x}", sc.boards[k], sc.boards[i], hs[k], hs[i]), lh));
            }
            if !same_pos && hs[k] == hs[i] && !out.iter().any(|o| o.0 == "two_positions_one_hash") {
                out.push(("two_positions_one_hash".into(), format!("{:?} and {:?} differ but both hash to {:016x}", sc.boards[k], sc.boards[i], hs[i]), lh));
            }
        }
    }
    out
}

/// The boards hashed through ONE engine: once on a fresh Searcher, then again after a depth-1
/// search of each root. Every board must keep its hash, and it must be the hash a fresh key
/// table of the same draw gives.
pub fn replay_session(sc: &PairScenario) -> Vec<(String, String, u64)> {
    let built: Vec<(Board, Pos)> = match sc.boards.iter().map(|b| b.build()).collect::<Option<Vec<_>>>() {
        Some(v) => v,
        None => return vec![],
    };
    let roots: Vec<(Board, Pos)> = match sc.search_roots.iter().map(|b| b.build()).collect::<Option<Vec<_>>>() {
        Some(v) => v,
        None => return vec![],
    };
    with_bench(|bench| {
        let mut st = SimState::new(sc.key_seed, 0);
        st.ev(&format!("cfg c11 session key_seed={}", sc.key_seed));
        st.max_nodes_per_search = 200_000;
        let sess = crate::sworld::Session::new(st);
        sess.fresh(&mut bench.searcher, false);
        let h0: Vec<u64> = built.iter().map(|(b, _)| bench.searcher.verif_hash(b)).collect();
        let mut out = vec![];
        for (ri, (rb, rp)) in roots.iter().enumerate() {
            if rp.legal_moves().is_empty() {
                continue;
            }
            let r = sess.search(&mut bench.searcher, rb, 1, None);
            if r.outcome != Outcome::Returned {
                break;
            }
            // every other time another key table comes into being in the same process (a second
            // engine object, a table built for some other purpose): its keys are its own
            // business, the first engine's hashes stay what they were
            if ri % 2 == 0 {
                let (o, other) = sess.proc_.run(engine::zobrist::ZobristTable::new);
                if o != Outcome::Returned {
                    break;
                }
                drop(other);
            }
            for (i, (b, _)) in built.iter().enumerate() {
                let h = bench.searcher.verif_hash(b);
                if h != h0[i] {
                    let lh = sess.st().log_hash;
                    out.push((
                        "same_position_two_hashes".to_string(),
                        format!("{:?} hashed to {:016x} on the fresh engine and to {:016x} after a depth-1 search of {:?} (root #{}{})", sc.boards[i], h0[i], h, sc.search_roots[ri], ri, if ri % 2 == 0 { ", followed by the creation of another key table in the same process" } else { "" }),
                        lh,
                    ));
                    return out;
                }
            }
        }
        out
    })
}

/// Single-component neighbours of a position that are themselves valid positions, plus
/// counter variants (which must NOT change the hash).
fn neighbours(rng: &mut Rng, p: &Pos) -> Vec<(Pos, &'static str)> {
    let mut out = vec![];
    // counters
    let mut q = p.clone();
    q.halfmove = rng.range(0, 99) as u32;
    q.fullmove = rng.range(1, 200) as u32;
    out.push((q, "counters"));
    // each castling right toggled
    for i in 0..4 {
        let mut q = p.clone();
        q.castle[i] = !q.castle[i];
        if q.is_valid() {
            out.push((q, "castling_right"));
        }
    }
    // side to move
    let mut q = p.clone();
    q.white_to_move = !q.white_to_move;
    q.ep = None;
    if q.is_valid() && p.ep.is_none() {
        out.push((q, "side_to_move"));
    }
    // ep square cleared / set / moved
    if p.ep.is_some() {
        let mut q = p.clone();
        q.ep = None;
        out.push((q, "ep_cleared"));
    }
    for f in 0..8 {
        let r = if p.white_to_move { 5 } else { 2 };
        let e = sq(f, r);
        if Some(e) != p.ep {
            let mut q = p.clone();
            q.ep = Some(e);
            if q.is_valid() {
                out.push((q, "ep_set_or_moved"));
            }
        }
    }
    // one piece moved / removed / recoloured / retyped
    let occupied: Vec<u8> = (0..64u8).filter(|&s| p.sq[s as usize] != EMPTY).collect();
    for _ in 0..6 {
        let s = *rng.pick(&occupied);
        let pc = p.sq[s as usize];
        let mut q = p.clone();
        q.castle = [false; 4];
        q.ep = None;
        let mut base = p.clone();
        base.castle = [false; 4];
        base.ep = None;
        let what = match rng.below(4) {
            0 => {
                let t = rng.below(64) as u8;
                if q.sq[t as usize] != EMPTY {
                    continue;
                }
                q.sq[s as usize] = EMPTY;
                q.sq[t as usize] = pc;
                "piece_moved"
            }
            1 => {
                if kind(pc) == KING {
                    continue;
                }
                q.sq[s as usize] = EMPTY;
                "piece_removed"
            }
            2 => {
                if kind(pc) == KING {
                    continue;
                }
                q.sq[s as usize] = pc ^ BLACK;
                "piece_recoloured"
            }
            _ => {
                if kind(pc) == KING {
                    continue;
                }
                let nk = *rng.pick(&[PAWN, KNIGHT, BISHOP, ROOK, QUEEN]);
                if nk == kind(pc) {
                    continue;
                }
                q.sq[s as usize] = nk | (pc & BLACK);
                "piece_retyped"
            }
        };
        if q.is_valid() && base.is_valid() {
            // compare against the same base (rights and ep cleared on both)
            out.push((base, "base_without_rights"));
            out.push((q, what));
        }
    }
    out
}

/// One feature of a position that can be added to (or toggled on) a base position.
#[derive(Clone, Copy, Debug, PartialEq)]
pub enum Feat {
    /// a man (piece code incl. colour) put on an empty square
    Add(u8, u8),
    /// the man on this square taken off
    Remove(u8),
    Ep(u8),
    Right(usize),
    Side,
}

fn apply_feat(p: &Pos, f: &Feat) -> Option<Pos> {
    let mut q = p.clone();
    match *f {
        Feat::Add(s, pc) => {
            if q.sq[s as usize] != EMPTY {
                return None;
            }
            q.sq[s as usize] = pc;
        }
        Feat::Remove(s) => {
            if q.sq[s as usize] == EMPTY || kind(q.sq[s as usize]) == KING {
                return None;
            }
            q.sq[s as usize] = EMPTY;
        }
        Feat::Ep(e) => {
            if q.ep.is_some() {
                return None;
            }
            q.ep = Some(e);
        }
        Feat::Right(i) => q.castle[i] = !q.castle[i],
        Feat::Side => {
            if q.ep.is_some() {
                return None;
            }
            q.white_to_move = !q.white_to_move;
        }
    }
    if q.is_valid() {
        Some(q)
    } else {
        None
    }
}

fn feat_name(f: &Feat) -> &'static str {
    match f {
        Feat::Add(..) => "man_added",
        Feat::Remove(..) => "man_removed",
        Feat::Ep(..) => "ep_added",
        Feat::Right(..) => "right_toggled",
        Feat::Side => "side_flipped",
    }
}

/// Every valid position that differs from `p` by ONE added or removed feature (a man put
/// on an empty square or taken off, an ep square set, a right toggled, the side flipped).
/// Hashed together under one key set, any two of them differ in two components: a key used
/// for two different features (ep square hashed with a pawn's key, a right's key reused)
/// makes two of them collide although every single-component change still changes the hash.
fn one_feature_variants(p: &Pos) -> (Pos, Vec<(Feat, Pos)>) {
    let mut base = p.clone();
    base.halfmove = base.halfmove.min(99);
    base.fullmove = base.fullmove.clamp(1, 200);
    let mut feats = vec![];
    for s in 0..64u8 {
        if base.sq[s as usize] == EMPTY {
            for k in [PAWN, KNIGHT, BISHOP, ROOK, QUEEN] {
                if k == PAWN && (rank_of(s) == 0 || rank_of(s) == 7) {
                    continue;
                }
                for c in [0, BLACK] {
                    feats.push(Feat::Add(s, k | c));
                }
            }
        } else if kind(base.sq[s as usize]) != KING {
            feats.push(Feat::Remove(s));
        }
    }
    if base.ep.is_none() {
        let r = if base.white_to_move { 5 } else { 2 };
        for f in 0..8 {
            feats.push(Feat::Ep(sq(f, r)));
        }
        feats.push(Feat::Side);
    }
    for i in 0..4 {
        feats.push(Feat::Right(i));
    }
    let out = feats.into_iter().filter_map(|f| apply_feat(&base, &f).map(|q| (f, q))).collect();
    (base, out)
}

/// Positions that differ in FOUR components. With h0 the hash of the base and d_i = h(base
/// + f_i) ^ h0, two different pairs of features with d_i ^ d_j == d_k ^ d_l point at a linear
/// dependency among the keys (e.g. piece colour folded into one key). That is only a search
/// heuristic: each hit is turned into two concrete valid positions, which are hashed for
/// real and reported only if they really collide.
fn four_component_candidates(base: &Pos, variants: &[(Feat, Pos)], h0: u64, hs: &[u64]) -> Vec<(Pos, Pos)> {
    let n = variants.len();
    let d: Vec<u64> = hs.iter().map(|h| h ^ h0).collect();
    let mut pairs: Vec<(u64, u16, u16)> = Vec::with_capacity(n * (n - 1) / 2);
    for i in 0..n {
        for j in i + 1..n {
            pairs.push((d[i] ^ d[j], i as u16, j as u16));
        }
    }
    pairs.sort_unstable();
    let mut out = vec![];
    let mut a = 0;
    while a + 1 < pairs.len() && out.len() < 8 {
        if pairs[a].0 == pairs[a + 1].0 {
            let (i, j, k, l) = (pairs[a].1 as usize, pairs[a].2 as usize, pairs[a + 1].1 as usize, pairs[a + 1].2 as usize);
            if i != k && i != l && j != k && j != l {
                // d_i^d_j == d_k^d_l  <=>  d_i^d_k == d_j^d_l  <=>  d_i^d_l == d_j^d_k
                for (x1, x2, y1, y2) in [(i, j, k, l), (i, k, j, l), (i, l, j, k)] {
                    let x = apply_feat(base, &variants[x1].0).and_then(|q| apply_feat(&q, &variants[x2].0));
                    let y = apply_feat(base, &variants[y1].0).and_then(|q| apply_feat(&q, &variants[y2].0));
                    if let (Some(x), Some(y)) = (x, y) {
                        if x.key() != y.key() {
                            out.push((x, y));
                            break;
                        }
                    }
                }
            }
        }
        a += 1;
    }
    out
}

pub struct Judged {
    pub violations: Vec<(String, String, PairScenario, u64)>,
    pub probes: Counters,
    pub boards: u64,
    pub distinct: Vec<u64>,
    pub log_hash: u64,
}

/// One sim: one key set, one root; tree to `depth` in parallel on R and the engine board,
/// neighbours of a seeded subset; both maps checked.
pub fn run_sim(seed: u64) -> (Judged, Value) {
    let mut rng = Rng::new(seed);
    let key_seed = rng.next_u64();
    let mut root = if rng.chance(1, 3) { Pos::from_fen(*rng.pick(gen::EDGE_FENS)).unwrap() } else { gen::random_position(&mut rng) };
    if !root.is_valid() {
        root = Pos::startpos();
    }
    root.halfmove = root.halfmove.min(99);
    root.fullmove = root.fullmove.clamp(1, 200);
    let depth = if root.legal_moves().len() > 25 { 2 } else { 3 };
    let root_fen = root.to_fen();
    // enumerate
    let mut specs: Vec<BoardSpec> = vec![];
    let mut boards: Vec<Board> = vec![];
    let mut keys: Vec<Key> = vec![];
    let mut tags: Vec<&'static str> = vec![];
    fn walk(p: &Pos, b: &Board, path: &mut Vec<String>, depth: u32, root_fen: &str, specs: &mut Vec<BoardSpec>, boards: &mut Vec<Board>, keys: &mut Vec<Key>, tags: &mut Vec<&'static str>, cap: usize) {
        specs.push(BoardSpec { fen: root_fen.to_string(), moves: path.clone() });
        boards.push(*b);
        keys.push(p.key());
        tags.push("tree");
        if depth == 0 || boards.len() >= cap {
            return;
        }
        let emoves = with_bench(|bn| bn.reference.gen.generate_moves(b));
        for m in p.legal_moves() {
            let u = m.uci();
            if let Some(em) = emoves.iter().find(|x| x.to_algebraic() == u) {
                let nb = b.clone_with_move(em);
                let np = p.make(&m);
                path.push(u);
                walk(&np, &nb, path, depth - 1, root_fen, specs, boards, keys, tags, cap);
                path.pop();
            }
        }
    }
    let root_board = Board::new(&root_fen);
    walk(&root, &root_board, &mut vec![], depth, &root_fen, &mut specs, &mut boards, &mut keys, &mut tags, 60_000);
    let tree_n = boards.len();
    // neighbours of a seeded subset
    let mut probes = Counters::default();
    let picks = 40.min(tree_n);
    for _ in 0..picks {
        let idx = rng.usize_below(tree_n);
        let Some((_, p)) = specs[idx].build() else { continue };
        for (q, what) in neighbours(&mut rng, &p) {
            let fen = q.to_fen();
            specs.push(BoardSpec { fen: fen.clone(), moves: vec![] });
            boards.push(Board::new(&fen));
            keys.push(q.key());
            tags.push(what);
            probes.add(&format!("neighbour_{}", what), 1);
        }
        // the picked position itself as a FEN board (different construction path, same position)
        let fen = p.to_fen();
        specs.push(BoardSpec { fen: fen.clone(), moves: vec![] });
        boards.push(Board::new(&fen));
        keys.push(p.key());
        tags.push("same_position_via_fen");
        probes.add("same_position_via_fen", 1);
    }
    // two-component differences: all one-feature variants of a few base positions
    let mut variant_sets: Vec<(Pos, Vec<(Feat, Pos)>, usize, usize)> = vec![]; // base, variants, index of base board, index of first variant board
    for _ in 0..3.min(tree_n) {
        let idx = rng.usize_below(tree_n);
        let Some((_, p)) = specs[idx].build() else { continue };
        let (base, vs) = one_feature_variants(&p);
        probes.add("two_component_bases", 1);
        let fen = base.to_fen();
        specs.push(BoardSpec { fen: fen.clone(), moves: vec![] });
        boards.push(Board::new(&fen));
        keys.push(base.key());
        tags.push("variant_base");
        let base_idx = boards.len() - 1;
        let first = boards.len();
        for (f, q) in &vs {
            let fen = q.to_fen();
            specs.push(BoardSpec { fen: fen.clone(), moves: vec![] });
            boards.push(Board::new(&fen));
            keys.push(q.key());
            tags.push(feat_name(f));
            probes.add(&format!("variant_{}", feat_name(f)), 1);
        }
        variant_sets.push((base, vs, base_idx, first));
    }
    let (hs, lh) = hash_under(key_seed, &boards);
    let mut j = Judged {
        violations: vec![],
        probes,
        boards: boards.len() as u64,
        distinct: vec![],
        log_hash: lh,
    };
    let mut by_key: HashMap<&Key, usize> = HashMap::new();
    let mut by_hash: HashMap<u64, usize> = HashMap::new();
    let mut transpositions = 0u64;
    for i in 0..boards.len() {
        match by_key.get(&keys[i]) {
            Some(&k) => {
                if i < tree_n {
                    transpositions += 1;
                }
                if hs[k] != hs[i] && j.violations.is_empty() {
                    let sc = seq_scenario(key_seed, &specs, k, i);
                    j.violations.push(("same_position_two_hashes".into(), format!("[{}] {:?} vs [{}] {:?}: {:016x} / {:016x}", tags[k], specs[k], tags[i], specs[i], hs[k], hs[i]), sc, lh));
                }
            }
            None => {
                by_key.insert(&keys[i], i);
                j.distinct.push(hash_str(&format!("{:?}", keys[i])));
            }
        }
        match by_hash.get(&hs[i]) {
            Some(&k) => {
                if keys[k] != keys[i] && j.violations.is_empty() {
                    let sc = seq_scenario(key_seed, &specs, k, i);
                    j.violations.push(("two_positions_one_hash".into(), format!("[{}] {:?} vs [{}] {:?}: both {:016x}", tags[k], specs[k], tags[i], specs[i], hs[i]), sc, lh));
                }
            }
            None => {
                by_hash.insert(hs[i], i);
            }
        }
    }
    // four-component differences (one base per sim): candidates from the XOR structure of
    // the hashes, each verified on two concrete positions
    if j.violations.is_empty() {
        if let Some((base, vs, bi, first)) = variant_sets.first() {
            let cands = four_component_candidates(base, vs, hs[*bi], &hs[*first..*first + vs.len()]);
            j.probes.add("four_component_candidate_pairs", cands.len() as u64);
            j.probes.add("four_component_pair_xors_examined", (vs.len() * vs.len().saturating_sub(1) / 2) as u64);
            for (x, y) in cands {
                let sc = PairScenario { key_seed, boards: vec![BoardSpec { fen: x.to_fen(), moves: vec![] }, BoardSpec { fen: y.to_fen(), moves: vec![] }], search_roots: vec![] };
                if let Some((c, d, lh2)) = replay_pair(&sc).into_iter().next() {
                    j.violations.push((c, format!("[four components differ] {}", d), sc, lh2));
                    break;
                }
            }
        }
    }
    // the hash seen through an engine that searches in between (one key set, one Searcher):
    // whatever a search leaves behind must not change the hash of any board
    if j.violations.is_empty() && tree_n > 0 {
        let mut pick: Vec<usize> = (0..12.min(tree_n)).map(|_| rng.usize_below(tree_n)).collect();
        pick.sort();
        pick.dedup();
        let roots: Vec<usize> = (0..3.min(tree_n)).map(|_| rng.usize_below(tree_n)).collect();
        let sc = PairScenario { key_seed, boards: pick.iter().map(|&i| specs[i].clone()).collect(), search_roots: roots.iter().map(|&i| specs[i].clone()).collect() };
        j.probes.add("boards_rehashed_after_searches", (sc.boards.len() * sc.search_roots.len()) as u64);
        if let Some((c, d, lh2)) = replay_session(&sc).into_iter().next() {
            j.violations.push((c, d, sc, lh2));
        }
    }
    j.probes.add("transpositions_in_tree", transpositions);
    j.probes.add("tree_positions", tree_n as u64);
    let sample = json!({"root": root_fen, "depth": depth, "boards_hashed": boards.len(), "key_seed": key_seed});
    (j, sample)
}

/// The two offending boards, each preceded by the board that was hashed just before it.
fn seq_scenario(key_seed: u64, specs: &[BoardSpec], k: usize, i: usize) -> PairScenario {
    // a window of the boards hashed before the later one: if the hash function keeps
    // state, what it returned for board i depends on them (the shrinker drops the rest)
    let mut idx = vec![];
    let lo = i.saturating_sub(40);
    for x in [k.wrapping_sub(1), k].into_iter().chain(lo..=i) {
        if x < specs.len() && !idx.contains(&x) {
            idx.push(x);
        }
    }
    PairScenario { key_seed, boards: idx.into_iter().map(|x| specs[x].clone()).collect(), search_roots: vec![] }
}

fn pair_to_json(s: &PairScenario) -> Value {
    json!({"key_seed": s.key_seed, "boards": s.boards.iter().map(|b| b.to_json()).collect::<Vec<_>>(), "search_roots": s.search_roots.iter().map(|b| b.to_json()).collect::<Vec<_>>()})
}
fn pair_from_json(v: &Value) -> Option<PairScenario> {
    Some(PairScenario {
        key_seed: v["key_seed"].as_u64().unwrap_or(0),
        boards: v["boards"].as_array()?.iter().filter_map(BoardSpec::from_json).collect(),
        search_roots: v["search_roots"].as_array().map(|a| a.iter().filter_map(BoardSpec::from_json).collect()).unwrap_or_default(),
    })
}

pub fn replay_value(v: &Value) -> Vec<Violation> {
    let Some(sc) = pair_from_json(v) else { return vec![] };
    let found = if sc.search_roots.is_empty() { replay_pair(&sc) } else { replay_session(&sc) };
    found
        .into_iter()
        .map(|(c, d, lh)| Violation {
            prop: "C11".into(),
            class: c,
            detail: d,
            scenario: pair_to_json(&sc),
            sim_index: 0,
            sim_seed: 0,
            log_hash: lh,
        })
        .collect()
}

pub fn shrink_value(v: &Value) -> Vec<Value> {
    let Some(sc) = pair_from_json(v) else { return vec![] };
    let mut out = vec![];
    if sc.search_roots.len() > 1 {
        for i in 0..sc.search_roots.len() {
            let mut n = sc.clone();
            n.search_roots.remove(i);
            out.push(pair_to_json(&n));
        }
    }
    // fewer boards
    if sc.boards.len() > 2 || (!sc.search_roots.is_empty() && sc.boards.len() > 1) {
        for i in 0..sc.boards.len() {
            let mut n = sc.clone();
            n.boards.remove(i);
            out.push(pair_to_json(&n));
        }
    }
    // re-root a path board at its FEN (drops the path), or one ply later
    for which in 0..sc.boards.len() {
        let spec = &sc.boards[which];
        if !spec.moves.is_empty() {
            if let Some((_, p)) = spec.build() {
                let mut n = sc.clone();
                n.boards[which] = BoardSpec { fen: p.to_fen(), moves: vec![] };
                out.push(pair_to_json(&n));
            }
            if let Ok(p0) = Pos::from_fen(&spec.fen) {
                if let Some(m) = p0.find_uci(&spec.moves[0]) {
                    let mut p1 = p0.make(&m);
                    p1.halfmove = p1.halfmove.min(99);
                    p1.fullmove = p1.fullmove.clamp(1, 200);
                    let mut n = sc.clone();
                    n.boards[which] = BoardSpec { fen: p1.to_fen(), moves: spec.moves[1..].to_vec() };
                    out.push(pair_to_json(&n));
                }
            }
        }
    }
    if sc.key_seed != 0 {
        let mut n = sc.clone();
        n.key_seed = 0;
        out.push(pair_to_json(&n));
    }
    out
}

pub fn run(ctx: &Ctx) -> i32 {
    let sims = ctx.n(2000, 40000);
    let rep = run_batch(sims, ctx.workers, |i| {
        let seed = derive(ctx.seed, "C11", i);
        let (j, sample) = run_sim(seed);
        let mut res = SimResult::default();
        res.evaluations = j.boards;
        res.distinct = j.distinct.clone();
        res.probes.merge(&j.probes);
        res.log_hash = j.log_hash;
        res.faults.add("key_redraw", 1);
        for (c, d, sc, lh) in &j.violations {
            res.violations.push(Violation {
                prop: "C11".into(),
                class: c.clone(),
                detail: d.clone(),
                scenario: pair_to_json(sc),
                sim_index: i,
                sim_seed: seed,
                log_hash: *lh,
            });
        }
        if i < 3 {
            res.sample = Some(sample);
        }
        res
    });
    let ev = Evidence {
        level: "exploration",
        rule: "One sim = one key set drawn through the randomness seam and one root position (playouts of the rules model, constructed positions): the game tree to depth 2-3 is walked in parallel on the rules model and on engine boards (engine make_move), which reaches the same positions by many move orders; for 40 seeded tree positions every valid single-component neighbour (each castling right, side to move, ep square set/cleared/moved, one piece moved/removed/recoloured/retyped) and counter variants are added as FEN-built boards; for 3 seeded tree positions every valid one-feature variant (a man added on each empty square or removed, ep square set, right toggled, side flipped) is added too, so that all pairs of them - positions differing in two components - are compared; for one of these bases the XOR structure of the variant hashes is searched for two pairs of features with equal XOR (a linear dependency among keys), each hit being verified on two concrete positions that differ in four components; finally a dozen tree boards are hashed through one engine before and after depth-1 searches of three other roots (state left by a search must not change any hash). Monitor: canonical position (placement, side, rights, ep) <-> hash must be a bijection on everything hashed under that key set. Evaluations = boards hashed; distinct = distinct canonical positions. In the through-an-engine scenario another key table is created in the same simulated process after every other search.".into(),
        extra: serde_json::Map::new(),
        assumptions: vec![
            "weak claim: a monitor over visited positions, not a dedicated search; collision probability of honest 64-bit keys over <=1e5 boards per key set is ~1e-10 and the default seed is fixed".into(),
            "canonical identity is computed by the independent rules model".into(),
        ],
        exhaustive: None,
    };
    conclude(ctx, &rep, ev, &replay_value, &shrink_value)
}

pub fn replay(path: &std::path::Path) -> i32 {
    let doc: Value = read_replay(path);
    let vs = replay_value(&doc["scenario"]);
    conclude_replay("C11", &vs, doc["class"].as_str())
}
