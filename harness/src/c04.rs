//! C04 — the `position` command reconstructs the exact game position.
//! World U, step-driven: histories of position commands (interleaved with other
//! commands so that the engine state is not virgin); after every position line the
//! engine's board is compared field by field with the rules model's position.

use crate::common::*;
use crate::gen;
use crate::rng::{derive, Rng};
use crate::rules::*;
use crate::simworld::*;
use crate::usession::*;
use serde_json::{json, Value};

#[derive(Clone, Debug)]
pub struct Scenario {
    pub lines: Vec<String>,
    pub key_seed: u64,
    /// also run the same lines through the real uci_loop and compare transcripts
    pub also_loop_driven: bool,
    /// Some(k): the whole session is a byte stream read by the real uci_loop (k = 1: one
    /// chunk, k >= 2: reads of k bytes) that ends with end of input; the board is compared
    /// after the loop has returned
    pub stream: Option<usize>,
}

impl Scenario {
    pub fn to_json(&self) -> Value {
        json!({"lines": self.lines, "key_seed": self.key_seed, "also_loop_driven": self.also_loop_driven, "stream": self.stream})
    }
    pub fn from_json(v: &Value) -> Option<Scenario> {
        Some(Scenario {
            lines: v["lines"].as_array()?.iter().map(|x| x.as_str().unwrap_or("").to_string()).collect(),
            key_seed: v["key_seed"].as_u64().unwrap_or(0),
            also_loop_driven: v["also_loop_driven"].as_bool().unwrap_or(false),
            stream: v["stream"].as_u64().map(|x| x as usize),
        })
    }
}

pub struct Judged {
    pub violations: Vec<(String, String)>,
    pub probes: Counters,
    pub positions_checked: u64,
    pub distinct: Vec<u64>,
    pub log_hash: u64,
}

fn move_probes(probes: &mut Counters, history: &[Pos], line: &str) {
    // classify the moves of this command by replaying them on the rules model
    let parts: Vec<&str> = line.split_whitespace().collect();
    let Some(i) = parts.iter().position(|&x| x == "moves") else { return };
    for (k, m) in parts[i + 1..].iter().enumerate() {
        let Some(p) = history.get(k) else { return };
        let Some(mv) = p.find_uci(m) else { return };
        probes.add("moves_applied", 1);
        if mv.flags & F_CASTLE != 0 {
            probes.add(if file_of(mv.to) == 6 { "castle_king_side" } else { "castle_queen_side" }, 1);
        }
        if mv.flags & F_EP != 0 {
            probes.add("en_passant_capture", 1);
        }
        if mv.promo != 0 {
            probes.add(if mv.flags & F_CAPTURE != 0 { "promotion_with_capture" } else { "promotion_push" }, 1);
            if mv.promo != QUEEN {
                probes.add("underpromotion", 1);
            }
        }
        if mv.flags & F_CAPTURE != 0 && [0u8, 7, 56, 63].contains(&mv.to) && kind(p.sq[mv.to as usize]) == ROOK {
            let idx = match mv.to {
                7 => 0,
                0 => 1,
                63 => 2,
                _ => 3,
            };
            if p.castle[idx] {
                probes.add("rights_lost_by_rook_capture", 1);
                if mv.promo != 0 {
                    probes.add("rights_lost_by_promoting_capture", 1);
                }
                if kind(p.sq[mv.from as usize]) == KING {
                    probes.add("rights_lost_by_a_king_capturing_the_corner_rook", 1);
                }
            }
        }
        if mv.flags & F_DOUBLE != 0 {
            let n = p.make(&mv);
            if !n.legal_moves().iter().any(|x| x.flags & F_EP != 0) {
                probes.add("ep_target_without_capturer", 1);
            }
        }
    }
}

/// The session as a byte stream through the real read loop; ends with end of input (no
/// quit), so that the loop returns and the engine object can be inspected afterwards.
pub fn run_stream(sc: &Scenario) -> Judged {
    let mut j = Judged { violations: vec![], probes: Counters::default(), positions_checked: 0, distinct: vec![], log_hash: 0 };
    let mut st = SimState::new(sc.key_seed, 0);
    st.max_nodes_per_search = 2_000_000;
    st.ev(&format!("cfg c04 stream key_seed={} chunk={:?}", sc.key_seed, sc.stream));
    let mut bytes: Vec<u8> = vec![];
    for l in &sc.lines {
        bytes.extend_from_slice(l.as_bytes());
        bytes.push(b'\n');
    }
    match sc.stream {
        Some(k) if k >= 2 => {
            for c in bytes.chunks(k) {
                st.push_bytes(c);
            }
        }
        _ => st.push_bytes(&bytes),
    }
    j.probes.add("stream_sessions", 1);
    j.probes.max("max_position_line_bytes", sc.lines.iter().map(|l| l.len()).max().unwrap_or(0) as u64);
    let proc_ = Proc::start(st, None);
    // the engine object lives out here so that its board can be read after the loop ends
    let (o, fl) = proc_.run(engine::uci::Flounder::new);
    let Some(mut fl) = fl else {
        j.violations.push(("crash".into(), format!("engine start: {:?}", o)));
        return j;
    };
    let (o, _) = proc_.run(|| fl.uci_loop());
    let expected = sc.lines.iter().rev().find_map(|l| if l.trim_start().starts_with("position") { interpret_position(l).map(|x| x.0) } else { None });
    match o {
        Outcome::Returned => {
            if let Some(exp) = expected {
                // valid only if no ucinewgame came after the last position command
                let last_pos = sc.lines.iter().rposition(|l| l.trim_start().starts_with("position")).unwrap_or(0);
                if !sc.lines[last_pos..].iter().any(|l| l.trim() == "ucinewgame") {
                    j.positions_checked += 1;
                    j.distinct.push(hash_str(&exp.to_fen()));
                    if let Some(d) = board_diff(fl.verif_board(), &exp) {
                        let class = if d.starts_with("inconsistent") { "inconsistent_board" } else { "board_mismatch" };
                        j.violations.push((class.into(), format!("session read through the input loop ({} bytes, last position line {} bytes): {}", bytes.len(), sc.lines[last_pos].len(), d)));
                    }
                }
            }
        }
        Outcome::Crash(m) => j.violations.push(("crash".into(), format!("engine crashed while reading the session through the input loop ({} bytes): {}", bytes.len(), m))),
        Outcome::Aborted(Abort::NodeCap) => j.probes.add("inconclusive_step_cap", 1),
        o => j.violations.push(("crash".into(), format!("{:?}", o))),
    }
    j.log_hash = proc_.st.borrow().log_hash;
    j
}

pub fn run_scenario(sc: &Scenario) -> Judged {
    if sc.stream.is_some() {
        return run_stream(sc);
    }
    let mut j = Judged {
        violations: vec![],
        probes: Counters::default(),
        positions_checked: 0,
        distinct: vec![],
        log_hash: 0,
    };
    let mut st = SimState::new(sc.key_seed, 0);
    st.max_nodes_per_search = 2_000_000;
    st.ev(&format!("cfg c04 key_seed={}", sc.key_seed));
    let (mut sess, o) = StepSession::start(st);
    if o != Outcome::Returned {
        j.violations.push(("crash".into(), format!("engine start: {:?}", o)));
        return j;
    }
    let mut expected = Pos::startpos();
    // false after ucinewgame: the property does not say what the current position is then
    // (only what it is after a position command), so nothing is compared until the next one
    let mut expected_known = true;
    let mut prev_was_position = false;
    let mut last_start: Option<Pos> = None;
    let mut new_game_since_last_start = false;
    for line in &sc.lines {
        let tok = line.split_whitespace().next().unwrap_or("");
        if tok == "ucinewgame" {
            new_game_since_last_start = true;
        }
        let o = sess.cmd(line);
        match tok {
            "position" => {
                let Some((p, hist)) = interpret_position(line) else {
                    j.probes.add("position_lines_not_understood_by_oracle", 1);
                    continue;
                };
                expected = p;
                expected_known = true;
                if prev_was_position {
                    j.probes.add("position_after_position", 1);
                }
                move_probes(&mut j.probes, &hist, line);
                if let Some(s0) = hist.first() {
                    if let Some(l0) = &last_start {
                        if l0.sq == s0.sq && l0.white_to_move == s0.white_to_move && (l0.castle != s0.castle || l0.ep != s0.ep) && !new_game_since_last_start {
                            j.probes.add("start_is_a_lookalike_of_the_previous_start_other_rights_or_ep", 1);
                        }
                    }
                    last_start = Some(s0.clone());
                    new_game_since_last_start = false;
                }
                if line.contains(" fen ") || line.contains("\tfen") {
                    let f: Vec<&str> = line.split_whitespace().collect();
                    if f.len() >= 8 {
                        if f[7].parse::<u32>().unwrap_or(0) >= 256 {
                            j.probes.add("fen_fullmove_ge_256", 1);
                        }
                        if f[6].parse::<u32>().unwrap_or(0) >= 100 {
                            j.probes.add("fen_halfmove_ge_100", 1);
                        }
                    }
                }
                match &o {
                    Outcome::Returned => {
                        j.positions_checked += 1;
                        j.distinct.push(hash_str(&expected.to_fen()));
                        if let Some(d) = board_diff(&sess.board(), &expected) {
                            let class = if d.starts_with("inconsistent") { "inconsistent_board" } else { "board_mismatch" };
                            j.violations.push((class.into(), format!("after '{}': {}", shorten(line), d)));
                            break;
                        }
                    }
                    Outcome::Crash(m) => {
                        j.violations.push(("crash".into(), format!("engine crashed handling '{}': {}", shorten(line), m)));
                        break;
                    }
                    o => {
                        j.violations.push(("crash".into(), format!("'{}': {:?}", shorten(line), o)));
                        break;
                    }
                }
                prev_was_position = true;
            }
            "ucinewgame" => {
                expected_known = false;
                prev_was_position = false;
                if o != Outcome::Returned {
                    j.violations.push(("crash".into(), format!("ucinewgame: {:?}", o)));
                    break;
                }
            }
            _ => {
                prev_was_position = false;
                match o {
                    Outcome::Returned => {}
                    Outcome::Aborted(Abort::NodeCap) => {
                        j.probes.add("inconclusive_step_cap", 1);
                        break;
                    }
                    o => {
                        j.violations.push(("crash".into(), format!("'{}': {:?}", shorten(line), o)));
                        break;
                    }
                }
                // other commands must not move the board: the position set by the last
                // position command is still the current one
                if !expected_known {
                    continue;
                }
                j.probes.add("board_rechecked_after_other_command", 1);
                if let Some(d) = board_diff(&sess.board(), &expected) {
                    j.violations.push(("board_mismatch".into(), format!("after '{}' (which is not a position command): {}", shorten(line), d)));
                    break;
                }
            }
        }
    }
    let step_out = sess.proc_.st.borrow().out_lines.clone();
    j.log_hash = sess.proc_.st.borrow().log_hash;
    drop(sess);
    if sc.also_loop_driven && j.violations.is_empty() {
        let mut st = SimState::new(sc.key_seed, 0);
        st.max_nodes_per_search = 2_000_000;
        let rep = run_script(st, sc.lines.clone());
        j.probes.add("sessions_rerun_loop_driven", 1);
        let loop_out = rep.st.borrow().out_lines.clone();
        let a: Vec<String> = step_out.iter().map(|l| crate::realbin::strip_time_fields(l)).collect();
        let b: Vec<String> = loop_out.iter().map(|l| crate::realbin::strip_time_fields(l)).collect();
        if a != b {
            j.violations.push(("loop_vs_step_transcript_differs".into(), format!("step-driven {:?} vs loop-driven {:?}", a.iter().take(6).collect::<Vec<_>>(), b.iter().take(6).collect::<Vec<_>>())));
        }
    }
    j
}

fn shorten(l: &str) -> String {
    if l.len() > 160 {
        format!("{}...({} bytes)", &l[..160], l.len())
    } else {
        l.to_string()
    }
}

/// Blank/tab runs between tokens, trailing blanks, CR.
fn reshape(rng: &mut Rng, line: &str) -> String {
    match rng.below(6) {
        0 => {
            let toks: Vec<&str> = line.split_whitespace().collect();
            let mut s = String::new();
            for (i, t) in toks.iter().enumerate() {
                if i > 0 {
                    s.push_str(*rng.pick(&[" ", "  ", "\t", " \t "]));
                }
                s.push_str(t);
            }
            s
        }
        1 => format!("{}  ", line),
        2 => format!("{}\r", line),
        3 => format!("  {}", line),
        _ => line.to_string(),
    }
}

fn gen_fen_position(rng: &mut Rng) -> Pos {
    // a position from a game of the rules model, with seeded counters and a seeded subset
    // of the castling rights that the placement supports
    let plies = match rng.below(3) {
        0 => rng.usize_below(12),
        1 => rng.usize_below(60),
        _ => rng.usize_below(200),
    };
    let bias = rng.below(3) as u32;
    let start = if rng.chance(1, 5) { Pos::from_fen(*rng.pick(gen::EDGE_FENS)).unwrap() } else { Pos::startpos() };
    let (_, ps) = gen::playout(rng, &start, plies, bias);
    let mut p = ps.last().unwrap().clone();
    for i in 0..4 {
        if p.castle[i] && rng.chance(1, 4) {
            p.castle[i] = false;
        }
    }
    p.halfmove = match rng.below(4) {
        0 => 0,
        1 => rng.range(0, 99) as u32,
        _ => rng.range(0, 150) as u32,
    };
    p.fullmove = match rng.below(5) {
        0 => 1,
        1 => rng.range(1, 80) as u32,
        2 => rng.range(80, 255) as u32,
        3 => rng.range(256, 600) as u32,
        _ => rng.range(600, 6000) as u32,
    };
    p
}

pub fn generate(seed: u64) -> Scenario {
    let mut rng = Rng::new(seed);
    let n = rng.range(1, 12);
    let mut lines = vec![];
    // (root, start, moves) of the position commands sent so far
    let mut sent: Vec<(String, Pos, Vec<RMove>)> = vec![];
    for _ in 0..n {
        // sometimes something else in between
        match rng.below(8) {
            0 => lines.push("isready".to_string()),
            1 => lines.push("ucinewgame".to_string()),
            2 => lines.push("go depth 1".to_string()),
            3 => {
                if rng.chance(1, 2) {
                    lines.push("ucinewgame".to_string());
                    lines.push("isready".to_string());
                }
            }
            _ => {}
        }
        // one command in four is related to an earlier one of this process: the same text
        // again, the same game a few plies further (what a GUI sends move after move), or
        // the same game with moves taken back
        if !sent.is_empty() && rng.chance(1, 4) {
            let (root, start, ms) = rng.pick(&sent).clone();
            let ms2: Vec<RMove> = match rng.below(3) {
                0 => ms.clone(),
                1 => {
                    let mut p = start.clone();
                    for m in &ms {
                        p = p.make(m);
                    }
                    let k = rng.range(1, 4) as usize;
                    let (more, _) = gen::playout(&mut rng, &p, k, 1);
                    let mut all = ms.clone();
                    all.extend(more);
                    all
                }
                _ => ms[..rng.usize_below(ms.len() + 1)].to_vec(),
            };
            let mut l = format!("position {}", root);
            if !ms2.is_empty() {
                l.push_str(" moves");
                for m in &ms2 {
                    l.push(' ');
                    l.push_str(&m.uci());
                }
            }
            lines.push(l);
            sent.push((root, start, ms2));
            if rng.chance(1, 3) {
                lines.push("isready".to_string());
            }
            continue;
        }
        // look-alike pair in one session: first the position without a castling right / ep
        // square (one move played from it), then, with no ucinewgame in between, the same
        // placement with it and the move that exists only because of it
        if rng.chance(1, 10) {
            if let Some((without, with, needs)) = gen::rights_twin(&mut rng) {
                let first = rng.pick(&without.legal_moves()).clone();
                lines.push(format!("position fen {} moves {}", without.to_fen(), first.uci()));
                match rng.below(4) {
                    0 => lines.push("isready".to_string()),
                    1 => lines.push("go depth 1".to_string()),
                    _ => {}
                }
                let after = with.make(&needs);
                let k = rng.usize_below(6);
                let (more, _) = gen::playout(&mut rng, &after, k, 1);
                let mut ms = vec![needs];
                ms.extend(more);
                lines.push(format!("position fen {} moves {}", with.to_fen(), gen::moves_uci(&ms).join(" ")));
                sent.push((format!("fen {}", with.to_fen()), with, ms));
                continue;
            }
        }
        // a king captures an unmoved rook on its home corner (the opponent's right must go)
        if rng.chance(1, 12) {
            if let Some((p, m)) = gen::king_takes_corner_rook(&mut rng) {
                let after = p.make(&m);
                let k = rng.usize_below(10);
                let (more, _) = gen::playout(&mut rng, &after, k, 1);
                let mut ms = vec![m];
                ms.extend(more);
                lines.push(format!("position fen {} moves {}", p.to_fen(), gen::moves_uci(&ms).join(" ")));
                sent.push((format!("fen {}", p.to_fen()), p, ms));
                continue;
            }
        }
        let (root, start) = if rng.chance(1, 2) {
            ("startpos".to_string(), Pos::startpos())
        } else {
            let p = gen_fen_position(&mut rng);
            (format!("fen {}", p.to_fen()), p)
        };
        let plies = match rng.below(5) {
            0 => 0,
            1 => rng.usize_below(8),
            2 => rng.usize_below(40),
            3 => rng.usize_below(120),
            _ => rng.usize_below(300),
        };
        let bias = rng.range(0, 3) as u32;
        let (ms, _) = gen::playout(&mut rng, &start, plies, bias);
        let mut l = format!("position {}", root);
        if !ms.is_empty() || rng.chance(1, 10) {
            l.push_str(" moves");
            for m in &ms {
                l.push(' ');
                l.push_str(&m.uci());
            }
        }
        lines.push(reshape(&mut rng, &l));
        if ms.len() <= 60 {
            sent.push((root, start, ms));
        }
    }
    if rng.chance(1, 4) {
        lines.push("go depth 1".into());
    }
    Scenario {
        lines,
        key_seed: rng.next_u64(),
        also_loop_driven: rng.chance(1, 20),
        stream: None,
    }
}

/// A short session read through the input loop whose last position command is long: a game
/// of up to ~4000 plies (piece shuffles after a seeded opening), i.e. a line of up to 20 KB.
pub fn generate_stream(seed: u64) -> Scenario {
    let mut rng = Rng::new(seed);
    let mut lines = vec![];
    if rng.chance(1, 2) {
        lines.push("isready".to_string());
    }
    if rng.chance(1, 2) {
        let (ms, _) = gen::playout(&mut rng, &Pos::startpos(), 10, 1);
        lines.push(format!("position startpos moves {}", gen::moves_uci(&ms).join(" ")));
    }
    let (root, start) = if rng.chance(1, 2) {
        ("startpos".to_string(), Pos::startpos())
    } else {
        let p = gen_fen_position(&mut rng);
        (format!("fen {}", p.to_fen()), p)
    };
    let open = rng.usize_below(20);
    let (mut ms, ps) = gen::playout(&mut rng, &start, open, 1);
    let mut pos = ps.last().unwrap().clone();
    let target = match rng.below(4) {
        0 => rng.range(0, 300),
        1 => rng.range(1500, 1800),
        2 => rng.range(1800, 2600),
        _ => rng.range(2600, 4200),
    } as usize;
    // shuffle: any reversible piece move and its way back, for both sides
    while ms.len() < target {
        let rev = |p: &Pos| -> Option<RMove> { p.legal_moves().into_iter().find(|m| m.flags == 0 && m.promo == 0 && kind(p.sq[m.from as usize]) != PAWN && kind(p.sq[m.from as usize]) != KING) };
        let Some(a) = rev(&pos) else { break };
        let p1 = pos.make(&a);
        let Some(b) = rev(&p1) else { break };
        let p2 = p1.make(&b);
        let (a2, b2) = (RMove { from: a.to, to: a.from, promo: 0, flags: 0 }, RMove { from: b.to, to: b.from, promo: 0, flags: 0 });
        let Some(a2) = p2.find_uci(&a2.uci()) else { break };
        let p3 = p2.make(&a2);
        let Some(b2) = p3.find_uci(&b2.uci()) else { break };
        pos = p3.make(&b2);
        ms.extend([a, b, a2, b2]);
    }
    let mut l = format!("position {}", root);
    if !ms.is_empty() {
        l.push_str(" moves ");
        l.push_str(&gen::moves_uci(&ms).join(" "));
    }
    lines.push(l);
    if rng.chance(1, 3) {
        lines.push("isready".to_string());
    }
    Scenario { lines, key_seed: rng.next_u64(), also_loop_driven: false, stream: Some(*rng.pick(&[1usize, 1, 4096, 8192, 1000, 65536])) }
}

fn violations_of(sc: &Scenario, j: &Judged, i: u64, seed: u64) -> Vec<Violation> {
    j.violations
        .iter()
        .map(|(c, d)| Violation {
            prop: "C04".into(),
            class: c.clone(),
            detail: d.clone(),
            scenario: sc.to_json(),
            sim_index: i,
            sim_seed: seed,
            log_hash: j.log_hash,
        })
        .collect()
}

pub fn replay_value(v: &Value) -> Vec<Violation> {
    let Some(sc) = Scenario::from_json(v) else { return vec![] };
    let j = run_scenario(&sc);
    violations_of(&sc, &j, 0, 0)
}

pub fn shrink_value(v: &Value) -> Vec<Value> {
    let Some(sc) = Scenario::from_json(v) else { return vec![] };
    let mut out = vec![];
    let n = sc.lines.len();
    if sc.also_loop_driven {
        let mut a = sc.clone();
        a.also_loop_driven = false;
        out.push(a.to_json());
    }
    // only the last command
    if n > 1 {
        let mut a = sc.clone();
        a.lines = vec![sc.lines[n - 1].clone()];
        out.push(a.to_json());
    }
    for i in 0..n {
        let mut a = sc.clone();
        a.lines.remove(i);
        out.push(a.to_json());
    }
    for i in 0..n {
        let l = &sc.lines[i];
        if !l.trim_start().starts_with("position") {
            continue;
        }
        let norm: String = l.split_whitespace().collect::<Vec<_>>().join(" ");
        if &norm != l {
            let mut a = sc.clone();
            a.lines[i] = norm.clone();
            out.push(a.to_json());
        }
        let parts: Vec<&str> = norm.split(' ').collect();
        if let Some(mi) = parts.iter().position(|&x| x == "moves") {
            let moves = &parts[mi + 1..];
            let head = parts[..mi].join(" ");
            // truncate from the back: halves, then one by one
            let mut k = moves.len();
            while k > 0 {
                k /= 2;
                let mut a = sc.clone();
                a.lines[i] = if k == 0 { head.clone() } else { format!("{} moves {}", head, moves[..k].join(" ")) };
                out.push(a.to_json());
            }
            if !moves.is_empty() {
                let mut a = sc.clone();
                a.lines[i] = if moves.len() == 1 { head.clone() } else { format!("{} moves {}", head, moves[..moves.len() - 1].join(" ")) };
                out.push(a.to_json());
            }
            // truncate from the front: re-root at the rules model's FEN after k moves
            if let Some((_, hist)) = interpret_position(&norm) {
                for k in [moves.len() / 2, moves.len().saturating_sub(1), 1] {
                    if k >= 1 && k <= moves.len() && k < hist.len() {
                        let mut p = hist[k].clone();
                        p.halfmove = p.halfmove.min(99);
                        p.fullmove = p.fullmove.clamp(1, 200);
                        let rest = &moves[k..];
                        let mut a = sc.clone();
                        a.lines[i] = if rest.is_empty() { format!("position fen {}", p.to_fen()) } else { format!("position fen {} moves {}", p.to_fen(), rest.join(" ")) };
                        out.push(a.to_json());
                    }
                }
            }
        }
        // simpler counters in a FEN
        if parts.len() >= 8 && parts[1] == "fen" {
            for (idx, simple) in [(6usize, "0"), (7usize, "1")] {
                if parts[idx] != simple {
                    let mut t: Vec<String> = parts.iter().map(|s| s.to_string()).collect();
                    t[idx] = simple.to_string();
                    let mut a = sc.clone();
                    a.lines[i] = t.join(" ");
                    out.push(a.to_json());
                }
            }
            for idx in [6usize, 7] {
                if let Ok(v) = parts[idx].parse::<u32>() {
                    for c in [v / 2, v.saturating_sub(1), 256, 255] {
                        if c < v && c >= (idx as u32 - 6) {
                            let mut t: Vec<String> = parts.iter().map(|s| s.to_string()).collect();
                            t[idx] = c.to_string();
                            let mut a = sc.clone();
                            a.lines[i] = t.join(" ");
                            out.push(a.to_json());
                        }
                    }
                }
            }
        }
    }
    if sc.key_seed != 0 {
        let mut a = sc.clone();
        a.key_seed = 0;
        out.push(a.to_json());
    }
    out
}

pub fn run(ctx: &Ctx) -> i32 {
    let sims = ctx.n(4000, 100000);
    let rep = run_batch(sims, ctx.workers, |i| {
        let seed = derive(ctx.seed, "C04", i);
        // one sim in twelve reads its session through the real input loop, with a long last line
        let sc = if i % 12 == 7 { generate_stream(seed) } else { generate(seed) };
        let j = run_scenario(&sc);
        let mut res = SimResult::default();
        res.evaluations = j.positions_checked.max(1);
        res.distinct = j.distinct.clone();
        res.probes.merge(&j.probes);
        res.probes.add("position_commands_checked", j.positions_checked);
        res.log_hash = j.log_hash;
        res.faults.add("key_redraw", 1);
        res.violations = violations_of(&sc, &j, i, seed);
        if i < 3 {
            res.sample = Some(json!({"lines": sc.lines.iter().map(|l| shorten(l)).collect::<Vec<_>>()}));
        }
        res
    });
    let ev = Evidence {
        level: "exploration",
        rule: "One sim = one engine process fed 1-12 position commands (startpos or a FEN written by the rules model at a seeded point of a seeded game, with halfmove 0..150, fullmove 1..6000 and a seeded subset of the supported castling rights; move lists of 0..300 plies biased towards castling, en passant, promotions incl. capturing ones, rook captures on corners), interleaved with isready / ucinewgame / go depth 1, with CR, tab and blank-run variations; one command in four is related to an earlier one of the same process (the same text again, the same game a few plies further, the same game with moves taken back). After every position line the engine's board (64 squares, side, four rights, ep target, internal consistency) must equal the rules model's; other commands (isready, go, ...) must leave it alone; nothing is claimed between ucinewgame and the next position command; 5% of sessions are re-run through the real uci_loop and must give the same transcript; one sim in twelve is a short session read as a byte stream by the real input loop (one chunk or 1000 B-64 KiB reads) whose last position command is a game of up to ~4000 plies (a line of up to 20 KB), compared after the loop has returned at end of input. Evaluations = position commands compared; distinct by final position. One command in ten is a look-alike pair within one session (a placement first without a castling right / ep square, one move played, then with it and the move that needs it); one in twelve starts from a constructed position in which a king captures an unmoved rook on its home corner while the opponent still holds that right.".into(),
        extra: serde_json::Map::new(),
        assumptions: vec![
            "the oracle is the independent rules model R (perft-validated), not the engine's generator".into(),
            "generated commands are valid by construction; an engine crash on one of them is a violation".into(),
        ],
        exhaustive: None,
    };
    conclude(ctx, &rep, ev, &replay_value, &shrink_value)
}

pub fn replay(path: &std::path::Path) -> i32 {
    let doc: Value = read_replay(path);
    let vs = replay_value(&doc["scenario"]);
    conclude_replay("C04", &vs, doc["class"].as_str())
}
