//! The simulator: one `World` = one simulated engine process (virtual clock, input
//! byte stream, captured output, exit seam, seeded key draws, cooperative fault points,
//! observation log). Installed on the current thread through the engine's seam holder.

use engine::verif_seam::{self as seam, Event, Sim, SimExit};
use std::cell::RefCell;
use std::collections::VecDeque;
use std::panic::{catch_unwind, AssertUnwindSafe};
use std::rc::Rc;
use std::time::Duration;

use crate::rng::{fnv1a, Rng, FNV_INIT};

/// Why the simulator itself ended a run (unwinds through the engine).
/// See Abort::NoProgress. Healthy searches: a few hundred at most (a node whose children are
/// all answered from the table).
pub const MAX_NO_PROGRESS_RUN: u64 = 400_000;

#[derive(Debug, Clone, PartialEq, Eq)]
pub enum Abort {
    /// More than the allowed number of reads after end of input.
    SpinsAtEof,
    /// Step cap: too many nodes in one search.
    NodeCap,
    /// Too many nodes entered after the deadline had passed.
    OvershootCap,
    /// Too many clock reads in one search (a loop that polls without searching).
    ReadCap,
    /// Stack use above the real main thread's limit.
    StackExhausted,
    /// A clock-limited search entered this many nodes without reading the clock
    /// (payload: node index at which the gap began).
    PollGap(u64),
    /// A search without a clock entered this many main-search nodes in a row without any
    /// sign of progress: no quiescence node, no attempt to store a result in the
    /// transposition table, no output line (payload: node index at which the run began).
    /// Every subtree of a healthy search ends in leaves (quiescence) and in completed nodes
    /// (stores); a loop that re-enters nodes answered from the table does neither.
    NoProgress(u64),
}

#[derive(Debug, Clone, PartialEq, Eq)]
pub enum Outcome {
    /// `process::exit(code)`.
    Exit(i32),
    /// The driven function returned normally (for `uci_loop`: `main` would return, status 0).
    Returned,
    Aborted(Abort),
    /// Engine panic (= process abort in the shipped profile).
    Crash(String),
}

#[derive(Debug, Clone)]
pub enum Chunk {
    Bytes(Vec<u8>),
    Err(std::io::ErrorKind),
}

#[derive(Debug, Clone)]
pub struct ClockCfg {
    pub cost_node_ns: u64,
    pub cost_read_ns: u64,
    /// (global read index, jump in ns): the process was descheduled before that read.
    pub stalls: Vec<(u64, u64)>,
    /// (search ordinal (0-based, counting timer starts with a limit or not), read index
    /// within that search (1-based; 0 is the read made by `start`)): from that read on
    /// the clock shows at least start + limit.
    pub forced_expiry: Vec<(u64, u64)>,
    /// Some(j): every clock-limited search expires at its read j (cheap sessions).
    pub forced_all: Option<u64>,
}

impl Default for ClockCfg {
    fn default() -> Self {
        ClockCfg {
            cost_node_ns: 0,
            cost_read_ns: 0,
            stalls: vec![],
            forced_expiry: vec![],
            forced_all: None,
        }
    }
}

#[derive(Debug, Clone, Default)]
pub struct BuggifyCfg {
    /// Per site: probability numerator out of 1000 (drawn from the sim's fault PRNG).
    pub rate_permille: [u32; 2],
    /// Explicit decisions (site, hit index) used by replay files instead of rates.
    pub explicit: Option<Vec<(u8, u64)>>,
}

#[derive(Debug, Clone)]
pub struct SearchRecord {
    pub ordinal: u64,
    pub limit: Option<Duration>,
    pub start_ns: u64,
    pub started: bool,
    pub reads: u64,
    pub nodes: u64,
    pub qnodes: u64,
    /// (reads, nodes) at the first event at which now >= start + limit.
    pub deadline_passed_at: Option<(u64, u64)>,
    /// Read index at which the engine could first have *seen* the deadline passed.
    pub first_expired_read: Option<u64>,
    pub nodes_after_deadline: u64,
    pub ns_at_deadline: u64,
    pub end_ns: u64,
    pub tt_hits: u64,
    pub tt_hits_exact: u64,
    pub tt_hits_deeper: u64,
    /// Output line index at the time of start (to attribute info lines).
    pub out_line_at_start: usize,
    pub max_stack: usize,
    /// (reads, nodes, tt_hits, tt_hits_deeper) at each `info depth` line of this search.
    pub info_marks: Vec<(u64, u64, u64, u64)>,
    /// node count at the most recent clock read of this search
    pub nodes_at_last_read: u64,
    pub max_poll_gap_seen: u64,
    /// node count at the most recent sign of progress (see Abort::NoProgress)
    pub progress_mark: u64,
    pub max_no_progress_run: u64,
    /// this record continues a call whose deadline had already passed (timer re-armed
    /// inside the same call): overshoot carried over from the earlier record
    pub inherited_overshoot: Option<u64>,
    /// nodes the engine entered in this call before it armed the timer
    pub pre_nodes: u64,
    /// the engine call (command / direct call) in which this timer was started
    pub call_id: u64,
    /// absolute virtual time at which the FIRST clock-limited arming of this engine call ends
    pub call_deadline_ns: Option<u64>,
    /// this arming came while an earlier deadline of the same call was still ahead, and it ends
    /// later than that deadline (or has no limit at all)
    pub drops_deadline: bool,
}

#[derive(Debug, Clone, Default)]
pub struct FaultCounts {
    pub stall_jump: u64,
    pub forced_expiry: u64,
    pub deadline_expired_mid_search: u64,
    pub zero_budget: u64,
    pub eof_reads: u64,
    pub read_error: u64,
    pub tt_probe_miss: u64,
    pub tt_store_drop: u64,
    pub key_draws: u64,
}

pub struct SimState {
    // clock
    pub clock: ClockCfg,
    pub now_ns: u64,
    pub reads: u64,
    pub searches: Vec<SearchRecord>,
    pub max_nodes_per_search: u64,
    /// nodes entered since the engine was last handed control (a command read or a direct
    /// call): bounds work done outside any timed search as well (cap: 2x max_nodes_per_search)
    pub nodes_in_call: u64,
    /// counts the times the engine was handed control (commands read, direct calls)
    pub call_id: u64,
    pub max_nodes_after_deadline: u64,
    pub max_reads_per_search: u64,
    /// abort a clock-limited search that enters more nodes than this between two clock reads
    pub max_poll_gap: u64,
    /// true once the harness / the reader has seen the engine finish the previous call;
    /// a timer re-armed *within* one call after its deadline passed inherits the overshoot
    pub call_boundary: bool,
    // input
    pub input: VecDeque<Chunk>,
    pub eof_reads: u64,
    pub max_eof_reads: u64,
    pub delivered: Vec<u8>,
    // output
    pub out_partial: String,
    pub out_lines: Vec<String>,
    /// per output line: how many input chunks had been handed to the engine when it was written
    pub out_line_after_chunks: Vec<u64>,
    pub chunks_delivered: u64,
    // exit
    pub exit_code: Option<i32>,
    // rng
    pub key_seed: u64,
    pub key_draws: u64,
    // buggify
    pub buggify: BuggifyCfg,
    pub fault_rng: Rng,
    pub site_hits: [u64; 2],
    pub fired: Vec<(u8, u64)>,
    // observation
    pub record_tt_traffic: bool,
    pub tt_traffic: Vec<Event>,
    pub tt_traffic_cap: usize,
    /// stores that put an entry under a key that held nothing (distinct positions cached by
    /// this process, counted at the searcher's store site)
    pub tt_new_keys: u64,
    pub faults: FaultCounts,
    // event log
    pub seq: u64,
    pub log_hash: u64,
    pub log: Vec<String>,
    pub keep_log: bool,
    // stack probe
    pub stack_base: usize,
    pub stack_limit: usize,
}

impl SimState {
    pub fn new(key_seed: u64, fault_seed: u64) -> SimState {
        SimState {
            clock: ClockCfg::default(),
            now_ns: 1_000_000_000,
            reads: 0,
            searches: vec![],
            max_nodes_per_search: 20_000_000,
            nodes_in_call: 0,
            call_id: 0,
            max_nodes_after_deadline: u64::MAX,
            max_reads_per_search: 400_000_000,
            max_poll_gap: u64::MAX,
            call_boundary: true,
            input: VecDeque::new(),
            eof_reads: 0,
            max_eof_reads: 8,
            delivered: vec![],
            out_line_after_chunks: vec![],
            chunks_delivered: 0,
            out_partial: String::new(),
            out_lines: vec![],
            exit_code: None,
            key_seed,
            key_draws: 0,
            buggify: BuggifyCfg::default(),
            fault_rng: Rng::new(fault_seed),
            site_hits: [0; 2],
            fired: vec![],
            record_tt_traffic: false,
            tt_traffic: vec![],
            tt_traffic_cap: 200_000,
            tt_new_keys: 0,
            faults: FaultCounts::default(),
            seq: 0,
            log_hash: FNV_INIT,
            log: vec![],
            keep_log: false,
            stack_base: 0,
            stack_limit: 7 * 1024 * 1024 + 512 * 1024,
        }
    }

    pub fn ev(&mut self, s: &str) {
        self.seq += 1;
        self.log_hash = fnv1a(self.log_hash, s.as_bytes());
        self.log_hash = fnv1a(self.log_hash, b"\n");
        if self.keep_log {
            self.log.push(format!("{} {}", self.seq, s));
        }
    }

    pub fn push_line(&mut self, line: &str) {
        let mut b = line.as_bytes().to_vec();
        b.push(b'\n');
        self.input.push_back(Chunk::Bytes(b));
    }

    pub fn push_bytes(&mut self, b: &[u8]) {
        self.input.push_back(Chunk::Bytes(b.to_vec()));
    }

    pub fn cur(&mut self) -> Option<&mut SearchRecord> {
        self.searches.last_mut()
    }

    fn check_deadline(&mut self) {
        let now = self.now_ns;
        let reads_total = self.reads;
        if let Some(s) = self.searches.last_mut() {
            if !s.started || s.deadline_passed_at.is_some() {
                return;
            }
            if let Some(l) = s.limit {
                let dl = s.start_ns.saturating_add(l.as_nanos().min(u64::MAX as u128) as u64);
                if now >= dl {
                    s.deadline_passed_at = Some((s.reads, s.nodes));
                    s.ns_at_deadline = dl;
                    let _ = reads_total;
                }
            }
        }
    }

    pub fn out_text(&self) -> String {
        let mut s = self.out_lines.join("\n");
        if !self.out_lines.is_empty() {
            s.push('\n');
        }
        s.push_str(&self.out_partial);
        s
    }
}

pub type Gui = Box<dyn FnMut(&mut SimState)>;

pub struct World {
    pub st: Rc<RefCell<SimState>>,
    pub gui: Option<Gui>,
}

#[inline(never)]
fn stack_addr() -> usize {
    let x = 0u8;
    &x as *const u8 as usize
}

impl Sim for World {
    fn clock_read(&mut self) -> u64 {
        heartbeat();
        let mut st = self.st.borrow_mut();
        st.reads += 1;
        let gidx = st.reads;
        // a monotonic clock with nanosecond resolution never shows the same instant to two
        // successive reads of one thread: every read advances virtual time by at least 1 ns
        // (an engine that compares `elapsed > limit` instead of `>=` must not hang here)
        let cost = st.clock.cost_read_ns.max(1);
        st.now_ns += cost;
        // stall faults
        let mut jump = 0u64;
        for (at, ns) in st.clock.stalls.iter() {
            if *at == gidx {
                jump += *ns;
            }
        }
        if jump > 0 {
            st.now_ns += jump;
            st.faults.stall_jump += 1;
            st.ev(&format!("stall read={} jump_ns={}", gidx, jump));
        }
        let now_before = st.now_ns;
        let mut force_to: Option<u64> = None;
        let mut abort = false;
        if let Some(s) = st.searches.last_mut() {
            if !s.started {
                s.started = true;
                s.start_ns = now_before;
                s.reads = 0;
                if s.call_deadline_ns.is_none() {
                    if let Some(l) = s.limit {
                        s.call_deadline_ns = Some(now_before.saturating_add(l.as_nanos().min(u64::MAX as u128) as u64));
                    }
                }
            } else {
                s.reads += 1;
                if s.reads > 0 {
                    // forced expiry
                }
            }
        }
        let (ord, sreads, start_ns, limit) = match st.searches.last() {
            Some(s) => (s.ordinal, s.reads, s.start_ns, s.limit),
            None => (u64::MAX, 0, 0, None),
        };
        if let Some(l) = limit {
            if st
                .clock
                .forced_expiry
                .iter()
                .any(|(o, j)| *o == ord && sreads >= *j && *j > 0)
                || st.clock.forced_all.map(|j| sreads >= j && j > 0).unwrap_or(false)
            {
                let dl = start_ns.saturating_add(l.as_nanos().min(u64::MAX as u128) as u64);
                if st.now_ns < dl {
                    force_to = Some(dl);
                }
            }
        }
        if let Some(t) = force_to {
            st.now_ns = t;
            st.faults.forced_expiry += 1;
            st.ev(&format!("forced_expiry search={} read={}", ord, sreads));
        }
        st.check_deadline();
        let now = st.now_ns;
        let maxr = st.max_reads_per_search;
        if let Some(s) = st.searches.last_mut() {
            if let Some(l) = s.limit {
                if s.first_expired_read.is_none()
                    && s.reads > 0
                    && now.saturating_sub(s.start_ns) as u128 >= l.as_nanos()
                {
                    s.first_expired_read = Some(s.reads);
                }
            }
            s.end_ns = now;
            s.nodes_at_last_read = s.nodes;
            if s.reads > maxr {
                abort = true;
            }
        }
        if abort {
            st.ev("abort read_cap");
            drop(st);
            std::panic::panic_any(Abort::ReadCap);
        }
        now
    }

    fn read(&mut self, buf: &mut [u8]) -> std::io::Result<usize> {
        heartbeat();
        let mut st = self.st.borrow_mut();
        st.call_boundary = true;
        st.nodes_in_call = 0;
        st.call_id += 1;
        if st.input.is_empty() {
            if let Some(g) = self.gui.as_mut() {
                g(&mut st);
            }
        }
        // the input loop must not grow the stack with the amount of input (the real main
        // thread has 8 MiB)
        if st.stack_base != 0 && st.stack_base.saturating_sub(stack_addr()) > st.stack_limit {
            st.ev("abort StackExhausted (in the input path)");
            drop(st);
            std::panic::panic_any(Abort::StackExhausted);
        }
        match st.input.pop_front() {
            Some(Chunk::Bytes(mut b)) => {
                let mut whole = true;
                if b.len() > buf.len() {
                    let rest = b.split_off(buf.len());
                    st.input.push_front(Chunk::Bytes(rest));
                    whole = false;
                }
                buf[..b.len()].copy_from_slice(&b);
                st.delivered.extend_from_slice(&b);
                // counted when the last piece of a chunk has been handed over (a chunk larger
                // than the reader's buffer takes several reads)
                if whole {
                    st.chunks_delivered += 1;
                }
                let text = String::from_utf8_lossy(&b).replace('\n', "\\n").replace('\r', "\\r");
                st.ev(&format!("in {}", text));
                Ok(b.len())
            }
            Some(Chunk::Err(kind)) => {
                st.faults.read_error += 1;
                st.ev(&format!("in_err {:?}", kind));
                Err(std::io::Error::new(kind, "injected"))
            }
            None => {
                st.eof_reads += 1;
                st.faults.eof_reads += 1;
                let n = st.eof_reads;
                st.ev("in_eof");
                if n > st.max_eof_reads {
                    st.ev("abort spins_at_eof");
                    drop(st);
                    std::panic::panic_any(Abort::SpinsAtEof);
                }
                Ok(0)
            }
        }
    }

    fn out(&mut self, s: &str) {
        heartbeat();
        let mut st = self.st.borrow_mut();
        st.out_partial.push_str(s);
        while let Some(i) = st.out_partial.find('\n') {
            let line: String = st.out_partial[..i].to_string();
            st.out_partial.drain(..=i);
            st.ev(&format!("out {}", line));
            if let Some(s) = st.searches.last_mut() {
                s.progress_mark = s.nodes;
            }
            if line.starts_with("info depth") {
                if let Some(s) = st.searches.last_mut() {
                    let m = (s.reads, s.nodes, s.tt_hits, s.tt_hits_deeper);
                    s.info_marks.push(m);
                }
            }
            st.out_lines.push(line);
            let c = st.chunks_delivered;
            st.out_line_after_chunks.push(c);
        }
    }

    fn exit(&mut self, code: i32) {
        let mut st = self.st.borrow_mut();
        st.exit_code = Some(code);
        st.ev(&format!("exit {}", code));
    }

    fn rng_seed(&mut self) -> u64 {
        let mut st = self.st.borrow_mut();
        st.key_draws += 1;
        st.faults.key_draws += 1;
        // Each handle of one simulated process gets its own stream.
        let mut x = st.key_seed ^ st.key_draws.wrapping_mul(0xA076_1D64_78BD_642F);
        let seed = crate::rng::splitmix64(&mut x);
        let kd = st.key_draws;
        st.ev(&format!("key_draw {}", kd));
        seed
    }

    fn on_node(&mut self, kind: u8) {
        heartbeat();
        let mut st = self.st.borrow_mut();
        let cost = st.clock.cost_node_ns;
        st.now_ns += cost;
        st.nodes_in_call += 1;
        if st.nodes_in_call > st.max_nodes_per_search.saturating_mul(2) {
            st.ev("abort node_cap_in_call");
            drop(st);
            std::panic::panic_any(Abort::NodeCap);
        }
        st.check_deadline();
        let base = st.stack_base;
        let lim = st.stack_limit;
        let maxn = st.max_nodes_per_search;
        let maxo = st.max_nodes_after_deadline;
        let maxgap = st.max_poll_gap;
        let mut abort: Option<Abort> = None;
        let cur_call = st.call_id;
        // nodes entered in a call that has not (yet) started a timer belong to no search
        if let Some(s) = st.searches.last_mut().filter(|s| s.call_id == cur_call) {
            s.nodes += 1;
            if kind == seam::NODE_QUIESCENCE {
                s.qnodes += 1;
                s.progress_mark = s.nodes;
            }
            let run = s.nodes - s.progress_mark;
            if run > s.max_no_progress_run {
                s.max_no_progress_run = run;
            }
            if run > MAX_NO_PROGRESS_RUN && s.limit.is_none() {
                abort = Some(Abort::NoProgress(s.progress_mark));
            }
            if let Some(carry) = s.inherited_overshoot {
                s.nodes_after_deadline = carry + s.nodes;
                if s.nodes_after_deadline > maxo {
                    abort = Some(Abort::OvershootCap);
                }
            } else if let Some((_, n_at)) = s.deadline_passed_at {
                s.nodes_after_deadline = s.nodes - n_at;
                if s.nodes_after_deadline > maxo {
                    abort = Some(Abort::OvershootCap);
                }
            }
            if s.nodes > maxn {
                abort = Some(Abort::NodeCap);
            }
            if s.limit.is_some() {
                let gap = s.nodes - s.nodes_at_last_read;
                if gap > s.max_poll_gap_seen {
                    s.max_poll_gap_seen = gap;
                }
                if gap > maxgap {
                    abort = Some(Abort::PollGap(s.nodes_at_last_read));
                }
            }
            if base != 0 {
                let here = stack_addr();
                let used = base.saturating_sub(here);
                if used > s.max_stack {
                    s.max_stack = used;
                }
                if used > lim {
                    abort = Some(Abort::StackExhausted);
                }
            }
        }
        if let Some(a) = abort {
            st.ev(&format!("abort {:?}", a));
            drop(st);
            std::panic::panic_any(a);
        }
    }

    fn on_timer_start(&mut self, limit: Option<Duration>) {
        let mut st = self.st.borrow_mut();
        let ordinal = st.searches.len() as u64;
        let out_line_at_start = st.out_lines.len();
        let pre_nodes = st.nodes_in_call;
        let call_id_now = st.call_id;
        let inherited = match st.searches.last() {
            Some(prev) if !st.call_boundary && (prev.deadline_passed_at.is_some() || prev.inherited_overshoot.is_some()) => {
                Some(prev.nodes_after_deadline)
            }
            _ => None,
        };
        // the timer armed again inside the engine call that already armed a deadline (before
        // that deadline has passed): does the new arming end no later than the first one?
        let drops_deadline = match st.searches.last() {
            Some(prev) if !st.call_boundary && prev.call_id == call_id_now && prev.started && prev.deadline_passed_at.is_none() && prev.inherited_overshoot.is_none() => {
                match (prev.call_deadline_ns, limit) {
                    (Some(_), None) => true,
                    (Some(d0), Some(l)) => st.now_ns.saturating_add(l.as_nanos().min(u64::MAX as u128) as u64) > d0.saturating_add(1_000_000),
                    (None, _) => false,
                }
            }
            _ => false,
        };
        let call_deadline_ns = match st.searches.last() {
            Some(prev) if !st.call_boundary && prev.call_id == call_id_now && prev.call_deadline_ns.is_some() => prev.call_deadline_ns,
            _ => None, // set at the first clock read of this search, when its start is known
        };
        st.call_boundary = false;
        if drops_deadline {
            st.ev("timer_rearmed_with_a_later_or_no_deadline_within_one_call");
        }
        if inherited.is_some() {
            st.ev("timer_rearmed_after_deadline_within_one_call");
        }
        if limit == Some(Duration::ZERO) {
            st.faults.zero_budget += 1;
        }
        st.ev(&format!("timer_start {:?}", limit.map(|d| d.as_nanos())));
        st.searches.push(SearchRecord {
            ordinal,
            limit,
            start_ns: 0,
            started: false,
            reads: 0,
            nodes: 0,
            qnodes: 0,
            deadline_passed_at: None,
            first_expired_read: None,
            nodes_after_deadline: 0,
            ns_at_deadline: 0,
            end_ns: 0,
            tt_hits: 0,
            tt_hits_exact: 0,
            tt_hits_deeper: 0,
            out_line_at_start,
            max_stack: 0,
            info_marks: vec![],
            nodes_at_last_read: 0,
            max_poll_gap_seen: 0,
            progress_mark: 0,
            max_no_progress_run: 0,
            inherited_overshoot: inherited,
            pre_nodes,
            call_id: call_id_now,
            call_deadline_ns,
            drops_deadline,
        });
    }

    fn buggify(&mut self, site: u8) -> bool {
        let mut st = self.st.borrow_mut();
        let i = site as usize;
        if site == seam::SITE_TT_STORE_DROP {
            // an attempt to store a result (possibly refused by the fault): progress
            if let Some(s) = st.searches.last_mut() {
                s.progress_mark = s.nodes;
            }
        }
        st.site_hits[i] += 1;
        let hit = st.site_hits[i];
        let fire = match &st.buggify.explicit {
            Some(list) => list.iter().any(|(s, h)| *s == site && *h == hit),
            None => {
                let r = st.buggify.rate_permille[i];
                r > 0 && st.fault_rng.below(1000) < r as u64
            }
        };
        if fire {
            st.fired.push((site, hit));
            if site == seam::SITE_TT_PROBE_MISS {
                st.faults.tt_probe_miss += 1;
            } else {
                st.faults.tt_store_drop += 1;
            }
        }
        fire
    }

    fn observe(&mut self, ev: Event) {
        let mut st = self.st.borrow_mut();
        match &ev {
            Event::TtHit {
                entry_depth,
                requested_depth,
                exact,
            } => {
                let deeper = entry_depth > requested_depth;
                if let Some(s) = st.searches.last_mut() {
                    s.tt_hits += 1;
                    if *exact {
                        s.tt_hits_exact += 1;
                    }
                    if deeper {
                        s.tt_hits_deeper += 1;
                    }
                }
            }
            _ => {
                if let Event::TtStoreEffect { before: None, after: Some(_), .. } = &ev {
                    st.tt_new_keys += 1;
                }
                if matches!(&ev, Event::TtStore { .. } | Event::TtStoreEffect { .. }) {
                    if let Some(s) = st.searches.last_mut() {
                        s.progress_mark = s.nodes;
                    }
                }
                if st.record_tt_traffic && st.tt_traffic.len() < st.tt_traffic_cap {
                    st.tt_traffic.push(ev);
                }
            }
        }
    }
}

/// Engine calls in progress, for the hang watchdog: (thread, sim index, since when).
pub static ENGINE_CALLS: std::sync::Mutex<Vec<(std::thread::ThreadId, u64, std::time::Instant, std::sync::Arc<std::sync::atomic::AtomicU64>)>> = std::sync::Mutex::new(Vec::new());

thread_local! {
    /// Bumped at every event the simulator sees from the engine on this thread (node entered,
    /// clock read, input read, output written). The watchdog takes an engine call for hanging
    /// only when this has stood still for the limit: a slow machine makes a long search slow,
    /// it does not stop its events.
    static BEAT: std::sync::Arc<std::sync::atomic::AtomicU64> = std::sync::Arc::new(std::sync::atomic::AtomicU64::new(0));
}

#[inline]
pub fn heartbeat() {
    BEAT.with(|b| {
        b.fetch_add(1, std::sync::atomic::Ordering::Relaxed);
    });
}

thread_local! {
    /// sim index of the batch this thread is working on (set by the batch runner)
    pub static CURRENT_SIM: std::cell::Cell<u64> = std::cell::Cell::new(u64::MAX);
}

struct EngineCallGuard(bool);

impl EngineCallGuard {
    fn enter() -> EngineCallGuard {
        let id = std::thread::current().id();
        let mut g = ENGINE_CALLS.lock().unwrap_or_else(|e| e.into_inner());
        // nested calls (a reference computation inside a session) keep the outer entry
        if g.iter().any(|e| e.0 == id) {
            return EngineCallGuard(false);
        }
        g.push((id, CURRENT_SIM.with(|c| c.get()), std::time::Instant::now(), BEAT.with(|b| b.clone())));
        EngineCallGuard(true)
    }
}

impl Drop for EngineCallGuard {
    fn drop(&mut self) {
        if self.0 {
            let id = std::thread::current().id();
            let mut g = ENGINE_CALLS.lock().unwrap_or_else(|e| e.into_inner());
            g.retain(|e| e.0 != id);
        }
    }
}

thread_local! {
    static IN_SIM: std::cell::Cell<bool> = std::cell::Cell::new(false);
    static LAST_PANIC: RefCell<Option<String>> = RefCell::new(None);
}

/// Installs (once per process) a panic hook that stays silent for panics raised while a
/// sim runs on the panicking thread and remembers their message and location.
pub fn install_panic_hook() {
    use std::sync::Once;
    static ONCE: Once = Once::new();
    ONCE.call_once(|| {
        let default = std::panic::take_hook();
        std::panic::set_hook(Box::new(move |info| {
            if IN_SIM.with(|f| f.get()) {
                let msg = if let Some(s) = info.payload().downcast_ref::<&str>() {
                    s.to_string()
                } else if let Some(s) = info.payload().downcast_ref::<String>() {
                    s.clone()
                } else {
                    String::new()
                };
                let loc = info
                    .location()
                    .map(|l| format!("{}:{}", l.file(), l.line()))
                    .unwrap_or_default();
                LAST_PANIC.with(|p| *p.borrow_mut() = Some(format!("{} at {}", msg, loc)));
            } else {
                default(info);
            }
        }));
    });
}

/// Handle to a simulated process: state shared between harness and installed `World`.
pub struct Proc {
    pub st: Rc<RefCell<SimState>>,
    /// the world that was installed on this thread before (nested use: a reference
    /// computation inside a step-driven session); re-installed when this one ends
    prev: RefCell<Option<Box<dyn Sim>>>,
    ended: std::cell::Cell<bool>,
}

impl Proc {
    /// Creates the world and installs it on this thread.
    pub fn start(st: SimState, gui: Option<Gui>) -> Proc {
        install_panic_hook();
        let st = Rc::new(RefCell::new(st));
        {
            let mut s = st.borrow_mut();
            s.stack_base = stack_addr();
        }
        let prev = seam::uninstall();
        seam::install(Box::new(World {
            st: st.clone(),
            gui,
        }));
        Proc {
            st,
            prev: RefCell::new(prev),
            ended: std::cell::Cell::new(false),
        }
    }

    /// Runs engine code inside the simulated process and classifies how it ended.
    pub fn run<R>(&self, f: impl FnOnce() -> R) -> (Outcome, Option<R>) {
        {
            let mut st = self.st.borrow_mut();
            st.call_boundary = true;
            st.nodes_in_call = 0;
            st.call_id += 1;
        }
        let _guard = EngineCallGuard::enter();
        let was_in_sim = IN_SIM.with(|c| c.replace(true));
        LAST_PANIC.with(|p| *p.borrow_mut() = None);
        let r = catch_unwind(AssertUnwindSafe(f));
        IN_SIM.with(|c| c.set(was_in_sim));
        match r {
            Ok(v) => (Outcome::Returned, Some(v)),
            Err(payload) => {
                if let Some(e) = payload.downcast_ref::<SimExit>() {
                    (Outcome::Exit(e.0), None)
                } else if let Some(a) = payload.downcast_ref::<Abort>() {
                    (Outcome::Aborted(a.clone()), None)
                } else {
                    let msg = LAST_PANIC
                        .with(|p| p.borrow_mut().take())
                        .unwrap_or_else(|| "panic".to_string());
                    let mut st = self.st.borrow_mut();
                    st.ev(&format!("crash {}", msg));
                    (Outcome::Crash(msg), None)
                }
            }
        }
    }

    fn end(&self) {
        if !self.ended.replace(true) {
            seam::uninstall();
            if let Some(p) = self.prev.borrow_mut().take() {
                seam::install(p);
            }
        }
    }

    pub fn finish(self) -> Rc<RefCell<SimState>> {
        self.end();
        self.st.clone()
    }
}

impl Drop for Proc {
    fn drop(&mut self) {
        self.end();
    }
}
