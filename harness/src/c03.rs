//! C03 — every `go` is answered by exactly one legal `bestmove`.
//! World U, loop-driven: a simulated GUI plays 1-4 games against the engine inside one
//! process lifetime; the clock's cost model decides where each budget expires.

use crate::common::*;
use crate::gen;
use crate::rng::{derive, Rng};
use crate::rules::*;
use crate::simworld::*;
use crate::usession::*;
use serde_json::{json, Value};
use std::cell::RefCell;
use std::rc::Rc;

#[derive(Clone, Debug)]
pub struct Scenario {
    pub lines: Vec<String>,
    pub key_seed: u64,
    pub cost_node_ns: u64,
    pub cost_read_ns: u64,
    pub stalls: Vec<(u64, u64)>,
    pub forced: Vec<(u64, u64)>,
}

impl Scenario {
    pub fn to_json(&self) -> Value {
        json!({"lines": self.lines, "key_seed": self.key_seed, "cost_node_ns": self.cost_node_ns,
            "cost_read_ns": self.cost_read_ns,
            "stalls": self.stalls.iter().map(|(a, b)| json!([a, b])).collect::<Vec<_>>(),
            "forced": self.forced.iter().map(|(a, b)| json!([a, b])).collect::<Vec<_>>()})
    }
    pub fn from_json(v: &Value) -> Option<Scenario> {
        let pairs = |x: &Value| -> Vec<(u64, u64)> {
            x.as_array()
                .map(|a| a.iter().filter_map(|p| Some((p[0].as_u64()?, p[1].as_u64()?))).collect())
                .unwrap_or_default()
        };
        Some(Scenario {
            lines: v["lines"].as_array()?.iter().map(|x| x.as_str().unwrap_or("").to_string()).collect(),
            key_seed: v["key_seed"].as_u64().unwrap_or(0),
            cost_node_ns: v["cost_node_ns"].as_u64().unwrap_or(0),
            cost_read_ns: v["cost_read_ns"].as_u64().unwrap_or(0),
            stalls: pairs(&v["stalls"]),
            forced: pairs(&v["forced"]),
        })
    }
    pub fn sim_state(&self) -> SimState {
        let mut st = SimState::new(self.key_seed, 0);
        st.clock.cost_node_ns = self.cost_node_ns;
        st.clock.cost_read_ns = self.cost_read_ns;
        st.clock.stalls = self.stalls.clone();
        st.clock.forced_expiry = self.forced.clone();
        st.max_nodes_per_search = 3_000_000;
        st.ev(&format!("cfg c03 key_seed={} cost_node={} cost_read={} stalls={:?} forced={:?}", self.key_seed, self.cost_node_ns, self.cost_read_ns, self.stalls, self.forced));
        st
    }
}

pub struct Judged {
    pub violations: Vec<(String, String)>,
    pub probes: Counters,
    pub gos: u64,
    pub shapes: Vec<u64>,
}

/// Walks the exchanges of a finished session and judges every `go`.
pub fn judge_session(rep: &LoopReport) -> Judged {
    let mut j = Judged {
        violations: vec![],
        probes: Counters::default(),
        gos: 0,
        shapes: vec![],
    };
    let st = rep.st.borrow();
    let mut pos = Pos::startpos();
    let mut games = 0u64;
    let n = rep.exchanges.len();
    for (xi, x) in rep.exchanges.iter().enumerate() {
        let tok = x.line.split_whitespace().next().unwrap_or("");
        let last = xi + 1 == n;
        match tok {
            "ucinewgame" => {
                pos = Pos::startpos();
                games += 1;
            }
            "position" => match interpret_position(&x.line) {
                Some((p, _)) => {
                    pos = p;
                    if x.line.len() >= 8192 {
                        j.probes.add("position_lines_of_8_kib_or_more", 1);
                    }
                }
                None => {
                    j.probes.add("position_lines_not_understood_by_oracle", 1);
                }
            },
            "go" => {
                j.gos += 1;
                let rec = x.search_ordinal.and_then(|o| st.searches.get(o));
                // how did the process fare while answering?
                if last {
                    match &rep.outcome {
                        Outcome::Crash(m) => {
                            j.violations.push(("crash".into(), format!("engine crashed while answering '{}' in {}: {}", x.line, pos.to_fen(), m)));
                            continue;
                        }
                        Outcome::Aborted(Abort::NodeCap) => {
                            let t: Vec<&str> = x.line.split_whitespace().collect();
                            let clocked = t.contains(&"movetime") || t.contains(&"wtime") || t.contains(&"btime");
                            if clocked {
                                // the generator sizes every clock budget below 50 000 nodes under
                                // this sim's cost model; 3 million nodes later the go is still
                                // unanswered
                                j.violations.push(("no_answer_under_a_clock".into(), format!("'{}' in {}: not answered within the step cap of 3 million nodes although the budget is worth fewer than 50 000", x.line, pos.to_fen())));
                            } else {
                                // step cap under a depth-limited go: inconclusive, never a violation
                                j.probes.add("inconclusive_step_cap", 1);
                            }
                            continue;
                        }
                        Outcome::Aborted(a) => {
                            j.violations.push(("diverged".into(), format!("{:?} while answering '{}'", a, x.line)));
                            continue;
                        }
                        _ => {}
                    }
                }
                if let Some((c, d)) = judge_go(&pos, &x.output) {
                    j.violations.push((c, format!("'{}': {}", x.line, d)));
                }
                let legal = pos.legal_moves().len();
                if legal >= 2 && pos.piece_count() <= 7 {
                    let all_lose = pos.legal_moves().iter().all(|m| {
                        let q = pos.make(m);
                        q.legal_moves().iter().any(|r| {
                            let z = q.make(r);
                            z.in_check() && z.legal_moves().is_empty()
                        })
                    });
                    if all_lose {
                        j.probes.add("go_on_position_lost_by_force", 1);
                    }
                }
                if legal > 128 {
                    j.probes.add("go_on_position_with_more_than_128_legal_moves", 1);
                }
                if x.line.contains("searchmoves") {
                    j.probes.add("go_with_searchmoves", 1);
                }
                {
                    let t: Vec<&str> = x.line.split_whitespace().collect();
                    if t.len() == 3 && t[1] == "depth" && t[2].parse::<u32>().map(|d| d >= 5).unwrap_or(false) {
                        j.probes.add("depth_limited_go_to_depth_5_or_more", 1);
                        if x.output.iter().any(|l| l.contains("score cp 2147") || l.contains("score cp -2147")) {
                            j.probes.add("deep_go_reported_a_mate_score", 1);
                        }
                    }
                }
                if legal == 0 {
                    j.probes.add(if pos.in_check() { "go_on_mate_position" } else { "go_on_stalemate_position" }, 1);
                    if !x.output.iter().any(|l| l.trim() == "bestmove 0000") {
                        j.probes.add("terminal_position_answered_with_other_token_than_0000", 1);
                    }
                }
                if let Some(r) = rec {
                    let infos = x.output.iter().filter(|l| l.starts_with("info")).count();
                    if r.limit == Some(std::time::Duration::ZERO) {
                        j.probes.add("budget_zero", 1);
                    }
                    if let Some((reads_at, nodes_at)) = r.deadline_passed_at {
                        if infos == 0 && nodes_at == 0 {
                            j.probes.add("bestmove_after_expiry_before_depth1", 1);
                        } else if infos == 0 {
                            j.probes.add("bestmove_after_expiry_inside_depth1", 1);
                        } else if r.info_marks.iter().any(|m| reads_at > m.0 && reads_at <= m.0 + 3) {
                            j.probes.add("bestmove_after_expiry_between_iterations", 1);
                        } else {
                            j.probes.add("bestmove_after_expiry_inside_later_iteration", 1);
                        }
                    }
                    if r.tt_hits > 0 && games > 0 {
                        j.probes.add("gos_with_tt_hits", 1);
                    }
                    j.probes.max("max_run_of_nodes_without_progress_in_one_search", r.max_no_progress_run);
                    let shape = format!("{}|{}|{}|{}", pos.piece_count(), legal.min(40), r.limit.map(|l| l.as_millis().min(99999)).unwrap_or(u128::MAX) as u64 % 100_000, r.deadline_passed_at.is_some());
                    j.shapes.push(hash_str(&format!("{}{}", shape, x.line.split_whitespace().nth(1).unwrap_or(""))));
                }
            }
            _ => {}
        }
    }
    match &rep.outcome {
        Outcome::Exit(0) | Outcome::Returned => {}
        Outcome::Crash(m) => {
            if !j.violations.iter().any(|v| v.0 == "crash") {
                let l = rep.exchanges.last().map(|x| x.line.clone()).unwrap_or_default();
                j.violations.push(("crash".into(), format!("engine crashed while handling '{}': {}", l, m)));
            }
        }
        _ => {}
    }
    j
}

/// go parameters for one move, sized so that a clock-limited search stays below
/// ~50 000 nodes under this sim's cost model.
fn gen_go(rng: &mut Rng, pos: &Pos, cost_node_ns: u64, explosive: bool) -> String {
    let g = gen_go_plain(rng, pos, cost_node_ns, explosive);
    // one go in eight restricts the search to a few moves (often a single one): an engine
    // that knows `searchmoves` must forget the list with the search, one that does not
    // ignores it
    if rng.chance(1, 8) {
        let mut ms = gen::moves_uci(&pos.legal_moves());
        if !ms.is_empty() {
            rng.shuffle(&mut ms);
            let k = (if rng.chance(1, 2) { 1 } else { rng.range(2, 3) as usize }).min(ms.len());
            return format!("{} searchmoves {}", g, ms[..k].join(" "));
        }
    }
    g
}

fn gen_go_plain(rng: &mut Rng, pos: &Pos, cost_node_ns: u64, explosive: bool) -> String {
    let unit_ms = (cost_node_ns.max(1) * 50_000 / 1_000_000).max(1);
    let kind = if explosive { rng.range(3, 9) } else { rng.below(10) };
    match kind {
        0 | 1 | 2 => {
            // deeper where the tree is small (tiny endgames: mates and stalemates deep in the
            // tree, a table that answers most of the later iterations)
            let maxd = match pos.piece_count() {
                0..=4 => 7,
                5 => 5,
                6..=8 => 4,
                _ => 3,
            };
            format!("go depth {}", rng.range(1, maxd))
        }
        3 | 4 => {
            let t = match rng.below(4) {
                0 => 0,
                1 => 1,
                2 => rng.range(2, 50).min(unit_ms),
                _ => rng.range(1, unit_ms),
            };
            format!("go movetime {}", t)
        }
        _ => {
            // clocks: ample / near the 5 s reserve / at or below it / zero
            let regime = rng.below(4);
            let mine = match regime {
                0 => 5_000 + rng.range(1, 25 * unit_ms),
                1 => rng.range(5_000, 5_100.min(5_000 + 25 * unit_ms)),
                2 => rng.range(1, 5_000),
                _ => 0,
            };
            let theirs = match rng.below(3) {
                0 => mine,
                1 => rng.range(0, 10_000_000),
                _ => 0,
            };
            let my_inc = match rng.below(4) {
                0 | 1 => 0,
                2 => rng.range(0, 50).min(unit_ms),
                _ => rng.range(0, unit_ms),
            };
            let their_inc = rng.range(0, 5000);
            let (w, b, wi, bi) = if pos.white_to_move { (mine, theirs, my_inc, their_inc) } else { (theirs, mine, their_inc, my_inc) };
            let mut toks = vec![("wtime", w), ("btime", b)];
            if rng.chance(2, 3) {
                toks.push(("winc", wi));
                toks.push(("binc", bi));
            }
            rng.shuffle(&mut toks);
            let mut s = "go".to_string();
            if rng.chance(1, 6) && !explosive {
                s.push_str(&format!(" depth {}", rng.range(1, 3)));
            }
            for (k, v) in toks {
                s.push_str(&format!(" {} {}", k, v));
            }
            s
        }
    }
}

/// Same placement and side to move, one other component different; valid; None if the
/// position has no such neighbour.
fn lookalike_of(rng: &mut Rng, p: &Pos) -> Option<Pos> {
    let mut cands = vec![];
    if p.ep.is_some() {
        let mut q = p.clone();
        q.ep = None;
        cands.push(q);
    }
    let r = if p.white_to_move { 5 } else { 2 };
    for f in 0..8 {
        let e = sq(f, r);
        if Some(e) != p.ep {
            let mut q = p.clone();
            q.ep = Some(e);
            if q.is_valid() {
                cands.push(q);
            }
        }
    }
    for i in 0..4 {
        let mut q = p.clone();
        q.castle[i] = !q.castle[i];
        if q.is_valid() {
            cands.push(q);
        }
    }
    cands.retain(|q| !q.legal_moves().is_empty());
    if cands.is_empty() {
        None
    } else {
        Some(rng.pick(&cands).clone())
    }
}

struct GuiState {
    rng: Rng,
    games_left: u64,
    /// how the current game is written: "startpos" or "fen <...>"
    root: String,
    moves: Vec<String>,
    pos: Pos,
    plies_left: u64,
    phase: u8, // 0 = start game, 1 = send position, 2 = send go, 3 = read answer
    cost_node_ns: u64,
    explosive_game: bool,
    /// the game starts from a position lost by force (every move allows mate in one)
    lost_game: bool,
    earlier_roots: Vec<String>,
    /// (root, moves) of the games played so far in this process
    earlier_games: Vec<(String, Vec<String>)>,
    quit_sent: bool,
    lookalike: Option<Pos>,
    /// the game that starts now is a look-alike of the position searched last: no ucinewgame
    lookalike_game: bool,
    /// the next go is this one (ep twin games: the pair must be searched to comparable depth)
    force_go: Option<String>,
    /// the look-alike prepared by an ep game must be taken as the next game
    lookalike_forced: bool,
}

pub fn generate_and_run(seed: u64) -> (Scenario, LoopReport) {
    let mut rng = Rng::new(seed);
    let cost_node_ns = rng.log_range(1_000, 5_000_000);
    let mut sc = Scenario {
        lines: vec![],
        key_seed: rng.next_u64(),
        cost_node_ns,
        cost_read_ns: if rng.chance(1, 2) { 0 } else { rng.log_range(1, 20_000) },
        stalls: vec![],
        forced: vec![],
    };
    // stall faults at seeded global read indices
    for _ in 0..rng.below(3) {
        sc.stalls.push((rng.log_range(1, 200_000), rng.log_range(1_000_000, 10_000_000_000)));
    }
    // forced expiry pinned to the first reads of some searches (the near-zero-budget corner)
    for _ in 0..rng.below(4) {
        sc.forced.push((rng.below(40), rng.range(1, 6)));
    }
    let gs = Rc::new(RefCell::new(GuiState {
        games_left: rng.range(1, 4),
        rng: rng.fork(),
        root: String::new(),
        moves: vec![],
        pos: Pos::startpos(),
        plies_left: 0,
        phase: 0,
        cost_node_ns,
        explosive_game: false,
        lost_game: false,
        earlier_roots: vec![],
        earlier_games: vec![],
        quit_sent: false,
        lookalike: None,
        lookalike_game: false,
        force_go: None,
        lookalike_forced: false,
    }));
    let g2 = gs.clone();
    let next = Box::new(move |view: &GuiView| -> Option<String> {
        let mut g = g2.borrow_mut();
        let g = &mut *g;
        loop {
            match g.phase {
                0 => {
                    if !g.root.is_empty() && !g.moves.is_empty() {
                        let done = (g.root.clone(), g.moves.clone());
                        g.earlier_games.push(done);
                    }
                    if g.games_left == 0 {
                        if g.quit_sent {
                            return None;
                        }
                        g.quit_sent = true;
                        if g.rng.chance(1, 2) {
                            return Some("quit".into());
                        }
                        return None;
                    }
                    g.games_left -= 1;
                    g.explosive_game = g.rng.chance(1, 8);
                    // start: startpos, a playout FEN, an edge position, an explosive one,
                    // or an earlier game's start (stale tables)
                    g.lost_game = false;
                    let lost = if !g.explosive_game && g.rng.chance(1, 10) { gen::lost_by_force_position(&mut g.rng) } else { None };
                    let (root, pos) = if let Some(p) = lost {
                        g.lost_game = true;
                        (format!("fen {}", crate::sworld::fen_for_search(&p)), p)
                    } else if !g.explosive_game && g.rng.chance(1, 20) {
                        // more than 128 legal moves (five to eight queens); treated like an
                        // explosive game: clock-limited go's, a few plies
                        g.explosive_game = true;
                        let p = gen::many_queens_position(&mut g.rng);
                        (format!("fen {}", crate::sworld::fen_for_search(&p)), p)
                    } else if g.explosive_game {
                        let p = if g.rng.chance(1, 2) { Pos::from_fen(*g.rng.pick(gen::EXPLOSIVE_FENS)).unwrap() } else { gen::promotion_race(&mut g.rng) };
                        (format!("fen {}", crate::sworld::fen_for_search(&p)), p)
                    } else if g.lookalike.is_none() && g.rng.chance(1, 12) {
                        // a position in which an en-passant capture is legal (its look-alike
                        // without the ep square follows as the next game, on the same tables)
                        match gen::ep_capture_position(&mut g.rng) {
                            Some(p) => {
                                // one go to depth 3 here, then the same placement without the
                                // ep square as the next game, without ucinewgame
                                // ... or with the ep square on another file, where the pawns allow it
                                let mut q = p.clone();
                                q.ep = None;
                                let r = if p.white_to_move { 5 } else { 2 };
                                let mut others = vec![];
                                for f in 0..8 {
                                    let mut o = p.clone();
                                    o.ep = Some(sq(f, r));
                                    if o.ep != p.ep && o.is_valid() && !o.legal_moves().is_empty() {
                                        others.push(o);
                                    }
                                }
                                if !others.is_empty() && g.rng.chance(3, 4) {
                                    q = g.rng.pick(&others).clone();
                                }
                                if q.is_valid() && !q.legal_moves().is_empty() {
                                    g.lookalike = Some(q);
                                    g.lookalike_forced = true;
                                    g.force_go = Some("go depth 3".to_string());
                                }
                                (format!("fen {}", crate::sworld::fen_for_search(&p)), p)
                            }
                            None => ("startpos".to_string(), Pos::startpos()),
                        }
                    } else if g.lookalike.is_some() && (g.lookalike_forced || g.rng.chance(2, 3)) {
                        g.lookalike_game = true;
                        if g.lookalike_forced {
                            g.lookalike_forced = false;
                            g.force_go = Some(format!("go depth {}", g.rng.range(1, 3)));
                        }
                        // a look-alike of the position searched last: same placement and side,
                        // one other component changed (ep square / a castling right); a hash
                        // that misses the component hands this search the other one's move
                        let p = g.lookalike.take().unwrap();
                        (format!("fen {}", crate::sworld::fen_for_search(&p)), p)
                    } else if !g.earlier_roots.is_empty() && g.rng.chance(1, 4) {
                        let r = g.rng.pick(&g.earlier_roots).clone();
                        let p = interpret_position(&format!("position {}", r)).unwrap().0;
                        (r, p)
                    } else {
                        match g.rng.below(5) {
                            0 | 1 => ("startpos".to_string(), Pos::startpos()),
                            4 => {
                                // a tiny endgame (two kings and one to five men), searched deep
                                let p = gen::sparse_position(&mut g.rng);
                                (format!("fen {}", crate::sworld::fen_for_search(&p)), p)
                            }
                            2 => {
                                let p = Pos::from_fen(*g.rng.pick(gen::EDGE_FENS)).unwrap();
                                (format!("fen {}", p.to_fen()), p)
                            }
                            _ => {
                                let mut p = gen::random_position(&mut g.rng);
                                if !p.is_valid() {
                                    p = Pos::startpos();
                                }
                                (format!("fen {}", crate::sworld::fen_for_search(&p)), p)
                            }
                        }
                    };
                    g.earlier_roots.push(root.clone());
                    g.root = root;
                    g.pos = pos;
                    g.moves.clear();
                    if !g.explosive_game && !g.earlier_games.is_empty() && g.rng.chance(1, 5) {
                        // an earlier game taken up again (same start, same moves up to some
                        // point, usually all of them): whatever the engine remembers about the
                        // game it was given before must not leak into this one
                        let (r, ms) = g.rng.pick(&g.earlier_games).clone();
                        let k = if g.rng.chance(2, 3) { ms.len() } else { g.rng.usize_below(ms.len() + 1) };
                        let line = if k == 0 { format!("position {}", r) } else { format!("position {} moves {}", r, ms[..k].join(" ")) };
                        if let Some((p, _)) = interpret_position(&line) {
                            if !p.legal_moves().is_empty() {
                                g.root = r;
                                g.pos = p;
                                g.moves = ms[..k].to_vec();
                            }
                        }
                    }
                    let mut long_game = false;
                    if !g.explosive_game && !g.lookalike_forced && g.moves.is_empty() && g.rng.chance(1, 40) {
                        // a very long game (1600-4500 plies of piece shuffles: a position line
                        // of 8-22 KB, read by the real input loop)
                        let target = g.rng.range(1600, 4500) as usize;
                        let (ms, p) = gen::shuffle_history(&g.pos, target);
                        if ms.len() >= 1600 && !p.legal_moves().is_empty() {
                            g.moves = gen::moves_uci(&ms);
                            g.pos = p;
                            long_game = true;
                        }
                    }
                    g.plies_left = if g.lookalike_forced { 1 } else if g.explosive_game { g.rng.range(1, 6) } else if long_game { g.rng.range(1, 3) } else { g.rng.range(1, 40) };
                    g.phase = 1;
                    // about a third of the games omit ucinewgame; a look-alike game always does
                    // (its point is what the tables hold from the game before)
                    let la = g.lookalike_game;
                    g.lookalike_game = false;
                    if !la && g.rng.chance(2, 3) {
                        return Some("ucinewgame".into());
                    }
                }
                1 => {
                    // now and then something a GUI sends at any time
                    if g.rng.chance(1, 12) {
                        return Some(g.rng.pick(&["isready", "isready", "stop", "ponderhit", "setoption name Hash value 32", "debug off"]).to_string());
                    }
                    g.phase = 2;
                    let mut s = format!("position {}", g.root);
                    if !g.moves.is_empty() {
                        s.push_str(" moves ");
                        s.push_str(&g.moves.join(" "));
                    }
                    return Some(s);
                }
                2 => {
                    g.phase = 3;
                    if !g.lookalike_forced {
                        if let Some(l) = lookalike_of(&mut g.rng, &g.pos) {
                            g.lookalike = Some(l);
                        }
                    }
                    if let Some(fg) = g.force_go.take() {
                        return Some(fg);
                    }
                    if g.rng.chance(1, 15) {
                        g.phase = 2;
                        return Some("isready".to_string());
                    }
                    if g.lost_game && g.rng.chance(2, 3) {
                        // deep enough to see the mate, and at least one completed iteration
                        return Some(format!("go depth {}", g.rng.range(2, 3)));
                    }
                    return Some(gen_go(&mut g.rng, &g.pos, g.cost_node_ns, g.explosive_game));
                }
                _ => {
                    // read the engine's answer and continue the game on the rules model
                    let answer = view.out[view.out_at_last_send..]
                        .iter()
                        .rev()
                        .find(|l| l.starts_with("bestmove"))
                        .and_then(|l| l.split_whitespace().nth(1).map(|s| s.to_string()));
                    let mv = answer.and_then(|a| g.pos.find_uci(&a));
                    let Some(mv) = mv else {
                        // no (legal) move came back: the judge will say why; next game
                        g.phase = 0;
                        continue;
                    };
                    g.pos = g.pos.make(&mv);
                    g.moves.push(mv.uci());
                    g.plies_left = g.plies_left.saturating_sub(1);
                    // the opponent's reply
                    match gen::pick_move(&mut g.rng, &g.pos, 1) {
                        Some(r) if g.plies_left > 0 => {
                            g.pos = g.pos.make(&r);
                            g.moves.push(r.uci());
                            g.plies_left -= 1;
                            // keep going even when the engine is now mated/stalemated: that go must answer 0000
                            g.phase = 1;
                            if g.plies_left == 0 {
                                g.phase = 0;
                            }
                        }
                        _ => {
                            // game over for the opponent or out of plies: one more go on the final position sometimes
                            if g.pos.legal_moves().is_empty() && g.rng.chance(1, 2) {
                                g.plies_left = 0;
                                g.phase = 1;
                                // after that single go the answer is 0000 and the game ends in phase 3
                                g.games_left = g.games_left; // unchanged
                                // mark so that phase 3 ends the game
                            } else {
                                g.phase = 0;
                            }
                        }
                    }
                }
            }
        }
    });
    let rep = run_loop(sc.sim_state(), next);
    sc.lines = rep.exchanges.iter().map(|x| x.line.clone()).collect();
    (sc, rep)
}

pub fn run_explicit(sc: &Scenario) -> LoopReport {
    run_script(sc.sim_state(), sc.lines.clone())
}

fn violations_of(sc: &Scenario, rep: &LoopReport, j: &Judged, i: u64, seed: u64) -> Vec<Violation> {
    let h = rep.st.borrow().log_hash;
    j.violations
        .iter()
        .map(|(c, d)| Violation {
            prop: "C03".into(),
            class: c.clone(),
            detail: d.clone(),
            scenario: sc.to_json(),
            sim_index: i,
            sim_seed: seed,
            log_hash: h,
        })
        .collect()
}

pub fn replay_value(v: &Value) -> Vec<Violation> {
    let Some(sc) = Scenario::from_json(v) else { return vec![] };
    let rep = run_explicit(&sc);
    let j = judge_session(&rep);
    violations_of(&sc, &rep, &j, 0, 0)
}

pub fn shrink_value(v: &Value) -> Vec<Value> {
    let Some(sc) = Scenario::from_json(v) else { return vec![] };
    let mut out = vec![];
    let n = sc.lines.len();
    // keep only the tail: drop whole prefixes (earlier games), then halves, then single lines
    let mut k = n / 2;
    while k >= 1 {
        if n > k {
            let mut a = sc.clone();
            a.lines = sc.lines[k..].to_vec();
            out.push(a.to_json());
            let mut b = sc.clone();
            b.lines = sc.lines[..n - k].to_vec();
            out.push(b.to_json());
        }
        k /= 2;
    }
    if n <= 40 {
        for i in 0..n {
            let mut a = sc.clone();
            a.lines.remove(i);
            out.push(a.to_json());
        }
    }
    // clock simplifications
    if !sc.stalls.is_empty() {
        let mut a = sc.clone();
        a.stalls.clear();
        out.push(a.to_json());
    }
    if !sc.forced.is_empty() {
        let mut a = sc.clone();
        a.forced.clear();
        out.push(a.to_json());
    }
    if sc.cost_read_ns != 0 {
        let mut a = sc.clone();
        a.cost_read_ns = 0;
        out.push(a.to_json());
    }
    // truncate move lists of position commands from the back is not sound in general (the
    // go that fails may depend on the position), but replacing a position-with-moves by
    // the FEN of its final position is: re-root at the rules model's FEN
    for i in 0..n {
        if sc.lines[i].starts_with("position") && sc.lines[i].contains(" moves ") {
            if let Some((p, _)) = interpret_position(&sc.lines[i]) {
                let mut a = sc.clone();
                a.lines[i] = format!("position fen {}", crate::sworld::fen_for_search(&p));
                out.push(a.to_json());
            }
        }
    }
    // simpler go parameters
    for i in 0..n {
        if sc.lines[i].starts_with("go ") {
            for simple in ["go movetime 0", "go depth 1"] {
                if sc.lines[i] != simple {
                    let mut a = sc.clone();
                    a.lines[i] = simple.to_string();
                    out.push(a.to_json());
                }
            }
        }
    }
    if sc.key_seed != 0 {
        let mut a = sc.clone();
        a.key_seed = 0;
        out.push(a.to_json());
    }
    out
}

pub fn run(ctx: &Ctx) -> i32 {
    let sims = ctx.n(1600, 30000);
    let rep = run_batch(sims, ctx.workers, |i| {
        let seed = derive(ctx.seed, "C03", i);
        let (sc, rep) = generate_and_run(seed);
        let j = judge_session(&rep);
        let mut res = SimResult::default();
        res.evaluations = j.gos;
        res.distinct = j.shapes.clone();
        res.probes.merge(&j.probes);
        {
            let st = rep.st.borrow();
            res.sim_time_ns = st.now_ns - 1_000_000_000;
            res.log_hash = st.log_hash;
            res.faults.add("stall_jump", st.faults.stall_jump);
            res.faults.add("forced_expiry", st.faults.forced_expiry);
            res.faults.add("zero_budget", st.faults.zero_budget);
            res.faults.add("key_redraw", st.faults.key_draws);
            res.faults.add("deadline_expired_mid_search", st.searches.iter().filter(|s| s.deadline_passed_at.is_some()).count() as u64);
            res.probes.add("commands_sent", rep.exchanges.len() as u64);
            // a position command that does not continue the previous one (another game) with
            // no ucinewgame in between: the tables still hold the other game
            let mut prev: Option<&str> = None;
            let mut n = 0u64;
            for l in &sc.lines {
                let l = l.trim();
                if l == "ucinewgame" {
                    prev = None;
                } else if l.starts_with("position") {
                    if let Some(p) = prev {
                        if !l.starts_with(p) {
                            n += 1;
                        }
                    }
                    prev = Some(l);
                }
            }
            res.probes.add("games_without_ucinewgame_between", n);
        }
        res.violations = violations_of(&sc, &rep, &j, i, seed);
        if i < 3 {
            res.sample = Some(json!({"first_lines": sc.lines.iter().take(8).collect::<Vec<_>>(), "commands": sc.lines.len(),
                "cost_node_ns": sc.cost_node_ns, "cost_read_ns": sc.cost_read_ns, "stalls": sc.stalls.len(), "forced": sc.forced.len()}));
        }
        res
    });
    let ev = Evidence {
        level: "exploration",
        rule: "One sim = one engine process lifetime: a simulated GUI plays 1-4 games (startpos, playout FENs, constructed mate/stalemate/only-move/promotion positions, positions lost by force (every move allows mate in one), positions with more than 128 legal moves, promotion races; isready/stop/setoption lines at seeded places; a third of the games without ucinewgame and revisiting earlier roots so that TT/killers/history are stale; one game in five takes up an earlier game of the same process again with the same start and moves), sending position+go per move and playing the engine's answer plus a seeded reply on the rules model. go parameters: depth 1..4, movetime 0/1/small/large, wtime/btime[/winc/binc] in four regimes (ample, near the 5 s reserve, below it, zero) in random token order. The clock's per-sim cost model (1us..5ms per node, optional per-read cost, stall jumps, forced expiry at reads 1..6 of seeded searches) decides where each budget expires. Oracle per go: exactly one bestmove, last line, legal per the rules model and never 0000 when a legal move exists (the token printed for a position without legal moves is not prescribed by the property and not judged), no crash. Evaluations = go commands judged; a case is distinct by (piece count, legal-move count, budget, expired?, go kind). Also: tiny endgames (two kings and one to five men) searched to depth 5-7 without a clock (mates and stalemates deep in the tree; a search that enters 400 000 nodes in a row without a quiescence node, a store attempt or an output line is cut and reported as diverged), and one game in forty with a history of 1600-4500 plies (a position line of 8-22 KB through the real input loop). One go in eight carries a searchmoves list; a clocked go that is unanswered after the step cap of 3 million nodes (budgets are worth fewer than 50 000) is a violation.".into(),
        extra: serde_json::Map::new(),
        assumptions: vec![
            "a depth-limited go that hits the 3M-node step cap is inconclusive (counted), never a violation: C03 sets no time bound for go depth".into(),
            "legality is judged by the independent rules model R (validated by perft against published values)".into(),
        ],
        exhaustive: None,
    };
    conclude(ctx, &rep, ev, &replay_value, &shrink_value)
}

pub fn replay(path: &std::path::Path) -> i32 {
    let doc: Value = read_replay(path);
    let vs = replay_value(&doc["scenario"]);
    conclude_replay("C03", &vs, doc["class"].as_str())
}
