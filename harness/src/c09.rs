//! C09 — the third occurrence of a position in the game is scored as a draw.
//! World U, step-driven: game histories with planted repetitions; after each position
//! command every legal successor is queried (hook) and a depth-1 search is compared with
//! the reference that knows the game-history rule.

use crate::common::*;
use crate::gen;
use crate::refsearch::{norm, LOST, WON};
use crate::rng::{derive, Rng};
use crate::rules::*;
use crate::simworld::*;
use crate::sworld::with_bench;
use crate::usession::*;
use serde_json::{json, Value};
use std::collections::HashMap;

#[derive(Clone, Debug)]
pub struct Scenario {
    pub lines: Vec<String>,
    pub key_seed: u64,
    /// (search ordinal, clock read) at which clock-limited searches of the session are cut
    pub forced: Vec<(u64, u64)>,
}

impl Scenario {
    pub fn to_json(&self) -> Value {
        json!({"lines": self.lines, "key_seed": self.key_seed, "forced": self.forced.iter().map(|(a, b)| json!([a, b])).collect::<Vec<_>>()})
    }
    pub fn from_json(v: &Value) -> Option<Scenario> {
        Some(Scenario {
            lines: v["lines"].as_array()?.iter().map(|x| x.as_str().unwrap_or("").to_string()).collect(),
            key_seed: v["key_seed"].as_u64().unwrap_or(0),
            forced: v["forced"].as_array().map(|a| a.iter().filter_map(|p| Some((p[0].as_u64()?, p[1].as_u64()?))).collect()).unwrap_or_default(),
        })
    }
}

pub struct Judged {
    pub violations: Vec<(String, String)>,
    pub probes: Counters,
    pub successors_checked: u64,
    pub distinct: Vec<u64>,
    pub log_hash: u64,
}

/// Earlier occurrences of each successor of the final position, under both readings of
/// "same position" (ep square as recorded / ep square only when capturable).
struct Occ {
    mv: RMove,
    succ: Pos,
    occ_recorded: usize,
    occ_fide: usize,
}

fn occurrences(history: &[Pos]) -> Vec<Occ> {
    let last = history.last().unwrap();
    let mut rec: HashMap<Key, usize> = HashMap::new();
    let mut fide: HashMap<Key, usize> = HashMap::new();
    for p in history {
        *rec.entry(p.key()).or_insert(0) += 1;
        *fide.entry(p.fide_key()).or_insert(0) += 1;
    }
    last.legal_moves()
        .into_iter()
        .map(|m| {
            let s = last.make(&m);
            Occ {
                mv: m,
                occ_recorded: rec.get(&s.key()).copied().unwrap_or(0),
                occ_fide: fide.get(&s.fide_key()).copied().unwrap_or(0),
                succ: s,
            }
        })
        .collect()
}

pub fn run_scenario(sc: &Scenario) -> Judged {
    let mut j = Judged {
        violations: vec![],
        probes: Counters::default(),
        successors_checked: 0,
        distinct: vec![],
        log_hash: 0,
    };
    let mut st = SimState::new(sc.key_seed, 0);
    st.max_nodes_per_search = 2_000_000;
    st.clock.forced_expiry = sc.forced.clone();
    st.ev(&format!("cfg c09 key_seed={} forced={:?}", sc.key_seed, sc.forced));
    let (mut sess, o) = StepSession::start(st);
    if o != Outcome::Returned {
        j.violations.push(("crash".into(), format!("engine start: {:?}", o)));
        return j;
    }
    let mut history: Vec<Pos> = vec![Pos::startpos()];
    let mut position_cmds_since_newgame = 0;
    let mut go_since_newgame = false;
    let mut advertised: Vec<String> = vec![];
    'lines: for line in &sc.lines {
        let expanded;
        let line = if let Some(k) = line.strip_prefix("@setoption ") {
            expanded = setoption_for(&advertised, k.trim().parse::<usize>().unwrap_or(0));
            j.probes.add(if advertised.is_empty() { "setoption_standard_option_sent" } else { "setoption_advertised_option_sent" }, 1);
            &expanded
        } else {
            line
        };
        let tok = line.split_whitespace().next().unwrap_or("");
        let out0 = sess.out_len();
        let o = sess.cmd(line);
        if tok == "uci" {
            advertised = sess.out_since(out0).iter().filter(|l| l.starts_with("option name ")).cloned().collect();
        }
        if let Outcome::Crash(m) = &o {
            j.violations.push(("crash".into(), format!("'{}': {}", line, m)));
            break;
        }
        if o != Outcome::Returned {
            j.probes.add("inconclusive_step_cap", 1);
            break;
        }
        match tok {
            "ucinewgame" => {
                history = vec![Pos::startpos()];
                position_cmds_since_newgame = 0;
                go_since_newgame = false;
            }
            "position" => {
                let Some((_, h)) = interpret_position(line) else { continue };
                history = h;
                position_cmds_since_newgame += 1;
                if position_cmds_since_newgame > 1 {
                    j.probes.add("history_replaced_by_later_position_command", 1);
                }
                let last = history.last().unwrap().clone();
                let occs = occurrences(&history);
                if occs.is_empty() {
                    continue;
                }
                // (1) direct query for every legal successor
                let root = sess.board();
                let succ_boards: Vec<(String, engine::board::Board)> = with_bench(|b| {
                    b.reference
                        .gen
                        .generate_moves(&root)
                        .iter()
                        .map(|m| (m.to_algebraic(), root.clone_with_move(m)))
                        .collect()
                });
                for oc in &occs {
                    let Some((_, sb)) = succ_boards.iter().find(|(u, _)| *u == oc.mv.uci()) else { continue };
                    let bucket = match oc.occ_recorded {
                        0 => "successors_occ_0",
                        1 => "successors_occ_1",
                        2 => "successors_occ_2",
                        _ => "successors_occ_3plus",
                    };
                    j.probes.add(bucket, 1);
                    if (oc.occ_recorded >= 2) != (oc.occ_fide >= 2) {
                        j.probes.add("successors_skipped_ep_convention_ambiguous", 1);
                        continue;
                    }
                    let want = oc.occ_recorded >= 2;
                    let fl = sess.fl.as_mut().unwrap();
                    let (o, got) = sess.proc_.run(|| fl.verif_searcher().verif_is_repetition_draw(&root, sb));
                    let Some(got) = got else {
                        j.violations.push(("crash".into(), format!("repetition query: {:?}", o)));
                        break 'lines;
                    };
                    j.successors_checked += 1;
                    j.distinct.push(hash_str(&format!("{}|{}", oc.succ.to_fen(), oc.occ_recorded.min(3))));
                    if got != want {
                        let class = if want { "third_occurrence_not_draw" } else { "draw_claimed_too_early" };
                        j.violations.push((
                            class.into(),
                            format!("after '{}': move {} leads to a position that occurred {} time(s) before; engine's repetition verdict is {}", shorten(line), oc.mv.uci(), oc.occ_recorded, got),
                        ));
                        break 'lines;
                    }
                }
                if history.len() > 1025 {
                    j.probes.add("histories_longer_than_1024_plies", 1);
                }
                if occs.iter().any(|oc| oc.occ_recorded >= 255) {
                    j.probes.add("successor_that_occurred_255_times_or_more", 1);
                }
                if history.len() > 101 {
                    for oc in &occs {
                        if oc.occ_recorded >= 2 {
                            // are both earlier occurrences more than 100 plies back?
                            let k = oc.succ.key();
                            let recent = history.iter().rev().take(100).filter(|h| h.key() == k).count();
                            if oc.occ_recorded - recent >= 2 && recent == 0 {
                                j.probes.add("third_occurrence_after_more_than_100_plies", 1);
                            }
                        }
                    }
                }
                if occs.len() == 1 && occs[0].occ_recorded >= 2 {
                    j.probes.add("only_legal_move_repeats", 1);
                }
                // look-alike: same placement and side as an earlier position, other rights/ep
                for oc in &occs {
                    if oc.occ_recorded == 0 && history.iter().any(|h| h.sq == oc.succ.sq && h.white_to_move == oc.succ.white_to_move && h.key() != oc.succ.key()) {
                        j.probes.add("lookalike_not_repetition", 1);
                    }
                }
                let _ = last;
            }
            _ if (tok == "go" && line.contains("movetime 100000000")) || (["isready", "setoption", "stop", "ponderhit", "debug", "register", "uci"].contains(&tok) && position_cmds_since_newgame > 0) => {
                // a clock-limited search cut by the clock, or a command a GUI may send at any
                // time: the verdicts must be what they were
                if tok == "go" {
                    go_since_newgame = true;
                    j.probes.add("interrupted_searches_followed_by_verdict_queries", 1);
                } else {
                    j.probes.add("anytime_commands_followed_by_verdict_queries", 1);
                }
                let occs = occurrences(&history);
                let root = sess.board();
                let succ_boards: Vec<(String, engine::board::Board)> = with_bench(|b| b.reference.gen.generate_moves(&root).iter().map(|m| (m.to_algebraic(), root.clone_with_move(m))).collect());
                for oc in &occs {
                    let Some((_, sb)) = succ_boards.iter().find(|(u, _)| *u == oc.mv.uci()) else { continue };
                    if (oc.occ_recorded >= 2) != (oc.occ_fide >= 2) {
                        continue;
                    }
                    let want = oc.occ_recorded >= 2;
                    let fl = sess.fl.as_mut().unwrap();
                    let (_, got) = sess.proc_.run(|| fl.verif_searcher().verif_is_repetition_draw(&root, sb));
                    let Some(got) = got else { break };
                    j.successors_checked += 1;
                    if got != want {
                        let class = if want { "third_occurrence_not_draw" } else { "draw_claimed_too_early" };
                        j.violations.push((class.into(), format!("after '{}' and then '{}': move {} leads to a position that occurred {} time(s) before; engine's repetition verdict is {}", shorten(&sc.lines.iter().rev().find(|l| l.starts_with("position")).cloned().unwrap_or_default()), shorten(line), oc.mv.uci(), oc.occ_recorded, got)));
                        break 'lines;
                    }
                }
            }
            "go" => {
                // (2) black box, depth 1 only, and only when no earlier search of this game
                // could have cached results from before the history existed
                let first_go = !go_since_newgame;
                go_since_newgame = true;
                // depth 1, with or without a clock the search cannot run out of
                let is_depth1 = {
                    let t: Vec<&str> = line.split_whitespace().collect();
                    t.windows(2).any(|w| w[0] == "depth" && w[1] == "1") && !t.contains(&"infinite")
                };
                if !is_depth1 || !first_go {
                    continue;
                }
                if line.trim() != "go depth 1" {
                    j.probes.add("depth1_searches_with_a_clock", 1);
                }
                let occs = occurrences(&history);
                if occs.is_empty() {
                    continue;
                }
                if occs.iter().any(|oc| (oc.occ_recorded >= 2) != (oc.occ_fide >= 2)) {
                    j.probes.add("depth1_checks_skipped_ep_convention_ambiguous", 1);
                    continue;
                }
                let root = sess.board();
                // reference: draws by history score 0, everything else by the engine's own quiescence
                let mut best = i32::MIN;
                let mut vals: Vec<(String, i32)> = vec![];
                let mut skipped = false;
                for oc in &occs {
                    let v = if oc.occ_recorded >= 2 {
                        0
                    } else {
                        let sb = with_bench(|b| {
                            b.reference.gen.generate_moves(&root).iter().find(|m| m.to_algebraic() == oc.mv.uci()).map(|m| root.clone_with_move(m))
                        });
                        let Some(sb) = sb else {
                            skipped = true;
                            break;
                        };
                        match with_bench(|b| b.reference.q(&sb)) {
                            Ok(q) => -q,
                            Err(_) => {
                                skipped = true;
                                break;
                            }
                        }
                    };
                    vals.push((oc.mv.uci(), v));
                    best = best.max(v);
                }
                if skipped {
                    j.probes.add("depth1_checks_skipped_reference_budget", 1);
                    continue;
                }
                let out = sess.out_since(out0);
                let info = out.iter().find(|l| l.starts_with("info depth 1 "));
                let bm = out.iter().find(|l| l.starts_with("bestmove ")).and_then(|l| l.split_whitespace().nth(1).map(|s| s.to_string()));
                let score = info.and_then(|l| {
                    let t: Vec<&str> = l.split_whitespace().collect();
                    t.iter().position(|&x| x == "cp").and_then(|i| t.get(i + 1)).and_then(|s| s.parse::<i32>().ok())
                });
                j.probes.add("depth1_searches_compared", 1);
                match (score, bm) {
                    (Some(s), Some(m)) => {
                        if norm(s) != best {
                            j.violations.push((
                                "depth1_score_wrong".into(),
                                format!("go depth 1 reports {} but the reference with the game-history rule gives {} (per move: {:?})", s, best, vals.iter().take(12).collect::<Vec<_>>()),
                            ));
                            break;
                        }
                        let mv_val = vals.iter().find(|(u, _)| *u == m).map(|x| x.1);
                        if mv_val != Some(best) {
                            j.violations.push(("depth1_move_not_attaining".into(), format!("bestmove {} is worth {:?}, reported value {}", m, mv_val, best)));
                            break;
                        }
                        if occs.iter().any(|o| o.occ_recorded >= 2) && best == 0 {
                            j.probes.add("depth1_value_decided_by_repetition_draw", 1);
                        }
                    }
                    _ => {
                        j.violations.push(("no_answer".into(), format!("go depth 1 produced {:?}", out)));
                        break;
                    }
                }
                let _ = (WON, LOST);
            }
            _ => {}
        }
    }
    j.log_hash = sess.proc_.st.borrow().log_hash;
    j
}

fn shorten(l: &str) -> String {
    if l.len() > 200 {
        format!("{}...({} bytes)", &l[..200], l.len())
    } else {
        l.to_string()
    }
}

/// A reversible (non-capturing, non-pawn, non-castling) move and the move undoing it.
fn reversible_moves(p: &Pos) -> Vec<RMove> {
    p.legal_moves()
        .into_iter()
        .filter(|m| m.flags == 0 && m.promo == 0 && kind(p.sq[m.from as usize]) != PAWN)
        .collect()
}

/// Appends plies to (moves, pos): random moves and shuffle cycles that revisit positions.
pub fn gen_history(rng: &mut Rng, start: &Pos) -> Vec<RMove> {
    let mut pos = start.clone();
    let mut moves: Vec<RMove> = vec![];
    // one history in eight is long (up to ~400 plies): repetitions whose earlier
    // occurrences lie far back in the game
    // one history in eight is long (up to ~400 plies), one in sixty very long (beyond 1024
    // plies: a game may last several thousand)
    let segments = if rng.chance(1, 60) { rng.range(140, 260) } else if rng.chance(1, 8) { rng.range(10, 45) } else { rng.range(1, 5) };
    for _ in 0..segments {
        match rng.below(3) {
            0 => {
                // free play
                let n = rng.usize_below(8);
                for _ in 0..n {
                    match gen::pick_move(rng, &pos, 1) {
                        Some(m) => {
                            pos = pos.make(&m);
                            moves.push(m);
                        }
                        None => return moves,
                    }
                }
            }
            _ => {
                // shuffle cycle: a out, b out, a back, b back; repeated; may stop mid-cycle
                let ra = reversible_moves(&pos);
                if ra.is_empty() {
                    continue;
                }
                let a = *rng.pick(&ra);
                let p1 = pos.make(&a);
                let rb = reversible_moves(&p1);
                if rb.is_empty() {
                    continue;
                }
                let b = *rng.pick(&rb);
                let cycle = [
                    a,
                    b,
                    RMove { from: a.to, to: a.from, promo: 0, flags: 0 },
                    RMove { from: b.to, to: b.from, promo: 0, flags: 0 },
                ];
                let total = rng.range(1, 11) as usize; // plies of shuffling, up to ~2.75 cycles
                for k in 0..total {
                    let want = cycle[k % 4];
                    match pos.find_uci(&want.uci()) {
                        Some(m) if m.flags & (F_CAPTURE | F_EP) == 0 => {
                            pos = pos.make(&m);
                            moves.push(m);
                        }
                        _ => break,
                    }
                }
            }
        }
    }
    moves
}

/// A history in which a position occurs twice early and can be brought about a third time
/// only after a long stretch (more than 100 plies) of reversible shuffling elsewhere.
fn gen_far_repetition(rng: &mut Rng, start: &Pos) -> Option<Vec<RMove>> {
    let back = |m: &RMove| RMove { from: m.to, to: m.from, promo: 0, flags: 0 };
    let mut pos = start.clone();
    let mut moves = vec![];
    let mut play = |pos: &mut Pos, moves: &mut Vec<RMove>, want: &RMove| -> bool {
        match pos.find_uci(&want.uci()) {
            Some(m) if m.flags == 0 && m.promo == 0 && kind(pos.sq[m.from as usize]) != PAWN => {
                *pos = pos.make(&m);
                moves.push(m);
                true
            }
            _ => false,
        }
    };
    // first cycle: X, a, b, a', b' = X again
    let ra = reversible_moves(&pos);
    if ra.is_empty() {
        return None;
    }
    let a = *rng.pick(&ra);
    let rb = reversible_moves(&pos.make(&a));
    if rb.is_empty() {
        return None;
    }
    let b = *rng.pick(&rb);
    for m in [a, b, back(&a), back(&b)] {
        if !play(&mut pos, &mut moves, &m) {
            return None;
        }
    }
    // leave X: a out, b out -> Y; then k cycles with two other pieces
    if !play(&mut pos, &mut moves, &a) || !play(&mut pos, &mut moves, &b) {
        return None;
    }
    let rc: Vec<RMove> = reversible_moves(&pos).into_iter().filter(|m| m.from != a.to).collect();
    if rc.is_empty() {
        return None;
    }
    let c = *rng.pick(&rc);
    let rd: Vec<RMove> = reversible_moves(&pos.make(&c)).into_iter().filter(|m| m.from != b.to).collect();
    if rd.is_empty() {
        return None;
    }
    let d = *rng.pick(&rd);
    let k = rng.range(20, 40);
    for _ in 0..k {
        for m in [c, d, back(&c), back(&d)] {
            if !play(&mut pos, &mut moves, &m) {
                return None;
            }
        }
    }
    // a back; now b back would bring X about for the third time (or stop one ply earlier)
    if rng.chance(3, 4) {
        if !play(&mut pos, &mut moves, &back(&a)) {
            return None;
        }
    }
    Some(moves)
}

/// A history at whose end the side to move has a SINGLE legal move, and that move brings a
/// position about for the third time (a perpetual: piece out, king steps, piece back with
/// check, king must step back). Returns (start, moves) or None within the try budget.
fn gen_forced_repetition(rng: &mut Rng) -> Option<(Pos, Vec<RMove>)> {
    for _ in 0..40 {
        let mut s0 = gen::sparse_position(rng);
        s0.halfmove = 0;
        let attackers = reversible_moves(&s0);
        for a in attackers.iter().filter(|m| kind(s0.sq[m.from as usize]) != KING) {
            let p1 = s0.make(a);
            for b in p1.legal_moves().iter().filter(|m| m.flags == 0 && kind(p1.sq[m.from as usize]) == KING) {
                let p2 = p1.make(b);
                let back = RMove { from: a.to, to: a.from, promo: 0, flags: 0 };
                let Some(c) = p2.find_uci(&back.uci()) else { continue };
                if c.flags != 0 {
                    continue;
                }
                let p3 = p2.make(&c);
                let replies = p3.legal_moves();
                if replies.len() != 1 || !p3.in_check() {
                    continue;
                }
                let d = replies[0];
                if p3.make(&d).key() != s0.key() {
                    continue;
                }
                return Some((s0, vec![*a, *b, c, d, *a, *b, c]));
            }
        }
    }
    None
}

/// The first go of a game, depth 1: plain, or with a clock it cannot run out of.
fn depth1_go(rng: &mut Rng) -> String {
    match rng.below(4) {
        0 => "go depth 1 movetime 3600000".to_string(),
        1 => "go wtime 3600000 btime 3600000 winc 0 binc 0 depth 1".to_string(),
        _ => "go depth 1".to_string(),
    }
}

pub fn generate(seed: u64) -> Scenario {
    let mut rng = Rng::new(seed);
    let mut lines = vec![];
    if rng.chance(1, 16) {
        if let Some((start, ms)) = gen_forced_repetition(&mut rng) {
            lines.push("ucinewgame".to_string());
            lines.push(format!("position fen {} moves {}", start.to_fen(), gen::moves_uci(&ms).join(" ")));
            lines.push(depth1_go(&mut rng));
            return Scenario { lines, key_seed: rng.next_u64(), forced: vec![] };
        }
    }
    if rng.chance(1, 40) {
        // one position occurring 254-259 times (a cycle of piece shuffles repeated that often,
        // its last move left to play): counts around a byte's range
        let start = if rng.chance(1, 2) { Pos::startpos() } else { gen::sparse_position(&mut rng) };
        let n = *rng.pick(&[254usize, 255, 256, 256, 257, 258, 259]);
        let (mut ms, _) = gen::shuffle_history(&start, 4 * n);
        if ms.len() == 4 * n {
            ms.pop();
            let root = if start == Pos::startpos() { "startpos".to_string() } else { format!("fen {}", start.to_fen()) };
            lines.push("ucinewgame".to_string());
            lines.push(format!("position {} moves {}", root, gen::moves_uci(&ms).join(" ")));
            lines.push(depth1_go(&mut rng));
            return Scenario { lines, key_seed: rng.next_u64(), forced: vec![] };
        }
    }
    if rng.chance(1, 10) {
        // a game that starts from a position the engine has just searched in the game before:
        // `position P`, go, ucinewgame, `position P moves ...` with P about to occur again
        let start = match rng.below(3) {
            0 => Pos::startpos(),
            1 => gen::sparse_position(&mut rng),
            _ => {
                let p = gen::random_position(&mut rng);
                if p.is_valid() && !p.legal_moves().is_empty() { let mut p = p; p.halfmove = p.halfmove.min(50); p.fullmove = p.fullmove.clamp(1, 200); p } else { Pos::startpos() }
            }
        };
        let cycles = rng.range(1, 3) as usize;
        let (mut ms, _) = gen::shuffle_history(&start, 4 * (cycles + 1));
        if ms.len() == 4 * (cycles + 1) {
            ms.pop();
            let root = if start == Pos::startpos() { "startpos".to_string() } else { format!("fen {}", start.to_fen()) };
            if rng.chance(1, 2) {
                lines.push("ucinewgame".to_string());
            }
            lines.push(format!("position {}", root));
            lines.push(format!("go depth {}", rng.range(1, 3)));
            lines.push("ucinewgame".to_string());
            lines.push(format!("position {} moves {}", root, gen::moves_uci(&ms).join(" ")));
            lines.push(depth1_go(&mut rng));
            return Scenario { lines, key_seed: rng.next_u64(), forced: vec![] };
        }
    }
    if rng.chance(1, 12) {
        // far repetition
        let start = if rng.chance(1, 2) {
            Pos::startpos()
        } else {
            let mut p = gen::random_position(&mut rng);
            if !p.is_valid() || p.legal_moves().is_empty() {
                p = Pos::startpos();
            }
            p.halfmove = 0;
            p.fullmove = p.fullmove.clamp(1, 200);
            p
        };
        if let Some(ms) = gen_far_repetition(&mut rng, &start) {
            let root = if start == Pos::startpos() { "startpos".to_string() } else { format!("fen {}", start.to_fen()) };
            lines.push("ucinewgame".to_string());
            lines.push(format!("position {} moves {}", root, gen::moves_uci(&ms).join(" ")));
            lines.push(depth1_go(&mut rng));
            return Scenario { lines, key_seed: rng.next_u64(), forced: vec![] };
        }
    }
    let games = rng.range(1, 2);
    for _ in 0..games {
        lines.push("ucinewgame".to_string());
        let ncmds = rng.range(1, 3);
        for c in 0..ncmds {
            let (root, start) = match rng.below(4) {
                0 | 1 => ("startpos".to_string(), Pos::startpos()),
                2 => {
                    // rooks/kings with castling rights: shuffles that lose rights create look-alikes
                    let p = Pos::from_fen("r3k2r/pppppppp/8/8/8/8/PPPPPPPP/R3K2R w KQkq - 0 1").unwrap();
                    (format!("fen {}", p.to_fen()), p)
                }
                _ => {
                    let mut p = gen::random_position(&mut rng);
                    if !p.is_valid() || p.legal_moves().is_empty() {
                        p = Pos::startpos();
                    }
                    p.halfmove = p.halfmove.min(99);
                    p.fullmove = p.fullmove.clamp(1, 200);
                    (format!("fen {}", p.to_fen()), p)
                }
            };
            let ms = gen_history(&mut rng, &start);
            let mut l = format!("position {}", root);
            if !ms.is_empty() {
                l.push_str(" moves ");
                l.push_str(&gen::moves_uci(&ms).join(" "));
            }
            lines.push(l);
            if c + 1 == ncmds || rng.chance(1, 4) {
                if rng.chance(1, 6) && c + 1 == ncmds {
                    // a position command without moves after one with: the history is gone
                    lines.push(format!("position {}", root));
                }
                lines.push(depth1_go(&mut rng));
            }
        }
    }
    // in one session of five a clock-limited go is cut by the clock right after the first
    // position command that has a history, and the repetition verdicts are asked again: an
    // interrupted search must not turn positions seen fewer than twice into draws
    let mut forced = vec![];
    if rng.chance(1, 5) {
        if let Some(i) = lines.iter().position(|l| l.starts_with("position") && l.contains(" moves ")) {
            // search ordinal = number of go lines before the insertion point
            let ord = lines[..=i].iter().filter(|l| l.starts_with("go")).count() as u64;
            lines.insert(i + 1, format!("go movetime {}", 100_000_000u64));
            forced.push((ord, rng.log_range(1, 3000)));
        }
    }
    // in one session of three a GUI-anytime command (isready, an option, stop, ...) follows a
    // position command that has a history; the verdicts are asked again after it: only the
    // next position command or ucinewgame may change what the history is. `uci` first, so that
    // the options the engine advertises are known ("@setoption k" = the k-th of them, or a
    // standard one when it advertises none).
    if rng.chance(1, 3) {
        let idx: Vec<usize> = lines.iter().enumerate().filter(|(_, l)| l.starts_with("position") && l.contains(" moves ")).map(|(i, _)| i).collect();
        if !idx.is_empty() {
            let i = *rng.pick(&idx);
            let n = rng.range(1, 2) as usize;
            for k in 0..n {
                let l = match rng.below(8) {
                    0 => "isready".to_string(),
                    1 => "setoption name Hash value 32".to_string(),
                    2 | 3 => "setoption name Clear Hash".to_string(),
                    4 => "stop".to_string(),
                    5 => "ponderhit".to_string(),
                    _ => format!("@setoption {}", rng.below(8)),
                };
                lines.insert(i + 1 + k, l);
            }
            // search ordinals of the forced expiries behind the insertion point are unchanged
            // (none of these lines starts a search)
            lines.insert(0, "uci".to_string());
        }
    }
    Scenario {
        lines,
        key_seed: rng.next_u64(),
        forced,
    }
}

/// What a GUI does with the options an engine advertised in its `uci` reply: presses the
/// button, sets a spin to a value inside its range, flips a check box.
fn setoption_for(advertised: &[String], k: usize) -> String {
    if advertised.is_empty() {
        return ["setoption name Clear Hash", "setoption name Hash value 1", "setoption name Hash value 128", "setoption name Ponder value false", "setoption name MultiPV value 1", "setoption name Threads value 1", "setoption name UCI_AnalyseMode value true", "setoption name Clear Hash"][k % 8].to_string();
    }
    let l = &advertised[k % advertised.len()];
    let t: Vec<&str> = l.split_whitespace().collect();
    // option name <words> type <t> [default x] [min a] [max b] [var ...]
    let ni = t.iter().position(|&x| x == "name").map(|i| i + 1).unwrap_or(2);
    let ti = t.iter().position(|&x| x == "type").unwrap_or(t.len());
    let name = t[ni.min(ti)..ti].join(" ");
    let ty = t.get(ti + 1).copied().unwrap_or("button");
    let field = |f: &str| t.iter().position(|&x| x == f).and_then(|i| t.get(i + 1)).map(|s| s.to_string());
    match ty {
        "button" => format!("setoption name {}", name),
        "check" => format!("setoption name {} value {}", name, if k % 2 == 0 { "true" } else { "false" }),
        "spin" => {
            let v = match k % 3 {
                0 => field("min"),
                1 => field("max"),
                _ => field("default"),
            };
            format!("setoption name {} value {}", name, v.unwrap_or_else(|| "1".to_string()))
        }
        "combo" => format!("setoption name {} value {}", name, field("var").unwrap_or_else(|| "x".to_string())),
        _ => format!("setoption name {} value {}", name, field("default").unwrap_or_else(|| "x".to_string())),
    }
}

fn violations_of(sc: &Scenario, j: &Judged, i: u64, seed: u64) -> Vec<Violation> {
    j.violations
        .iter()
        .map(|(c, d)| Violation {
            prop: "C09".into(),
            class: c.clone(),
            detail: d.clone(),
            scenario: sc.to_json(),
            sim_index: i,
            sim_seed: seed,
            log_hash: j.log_hash,
        })
        .collect()
}

pub fn replay_value(v: &Value) -> Vec<Violation> {
    let Some(sc) = Scenario::from_json(v) else { return vec![] };
    let j = run_scenario(&sc);
    violations_of(&sc, &j, 0, 0)
}

pub fn shrink_value(v: &Value) -> Vec<Value> {
    let Some(sc) = Scenario::from_json(v) else { return vec![] };
    let mut out = vec![];
    let n = sc.lines.len();
    for i in 0..n {
        let mut a = sc.clone();
        a.lines.remove(i);
        out.push(a.to_json());
    }
    for i in 0..n {
        let l = &sc.lines[i];
        if !l.starts_with("position") {
            continue;
        }
        let parts: Vec<&str> = l.split_whitespace().collect();
        if let Some(mi) = parts.iter().position(|&x| x == "moves") {
            let moves = &parts[mi + 1..];
            let head = parts[..mi].join(" ");
            // drop 4-ply blocks (whole shuffle cycles), 2-ply blocks, single plies from either end
            for blk in [4usize, 2, 1] {
                let mut s = 0;
                while s + blk <= moves.len() {
                    let mut m: Vec<&str> = moves.to_vec();
                    m.drain(s..s + blk);
                    let cand = if m.is_empty() { head.clone() } else { format!("{} moves {}", head, m.join(" ")) };
                    if interpret_position(&cand).is_some() {
                        let mut a = sc.clone();
                        a.lines[i] = cand;
                        out.push(a.to_json());
                    }
                    s += blk;
                }
            }
            // re-root at a FEN after k moves
            if let Some((_, hist)) = interpret_position(l) {
                for k in 1..hist.len().min(6) {
                    let mut p = hist[k].clone();
                    p.halfmove = p.halfmove.min(99);
                    p.fullmove = p.fullmove.clamp(1, 200);
                    let rest = &moves[k..];
                    let mut a = sc.clone();
                    a.lines[i] = if rest.is_empty() { format!("position fen {}", p.to_fen()) } else { format!("position fen {} moves {}", p.to_fen(), rest.join(" ")) };
                    out.push(a.to_json());
                }
            }
        }
    }
    if sc.key_seed != 0 {
        let mut a = sc.clone();
        a.key_seed = 0;
        out.push(a.to_json());
    }
    out
}

pub fn run(ctx: &Ctx) -> i32 {
    let sims = ctx.n(3000, 60000);
    let rep = run_batch(sims, ctx.workers, |i| {
        let seed = derive(ctx.seed, "C09", i);
        let sc = generate(seed);
        let j = run_scenario(&sc);
        let mut res = SimResult::default();
        res.evaluations = j.successors_checked.max(1);
        res.distinct = j.distinct.clone();
        res.probes.merge(&j.probes);
        res.log_hash = j.log_hash;
        res.faults.add("restart_ucinewgame", sc.lines.iter().filter(|l| *l == "ucinewgame").count() as u64);
        res.violations = violations_of(&sc, &j, i, seed);
        if i < 3 {
            res.sample = Some(json!({"lines": sc.lines.iter().map(|l| shorten(l)).collect::<Vec<_>>()}));
        }
        res
    });
    let ev = Evidence {
        level: "exploration",
        rule: "One sim = one engine process: ucinewgame, then 1-3 position commands whose move lists are seeded legal games with planted repetitions (shuffle cycles a-out b-out a-back b-back of 1..11 plies, also with rooks/kings that lose castling rights so that look-alike placements are not repetitions), then go depth 1; variants with several position commands in a row and a position without moves after one with. After each position command every legal successor S of the final position is queried through the hook that brackets the query like a search does: verdict must equal (S occurred at least twice before in the history of that command). The first go depth 1 of a game is compared with the reference max over successors of (0 if S occurred twice before else minus the engine's own quiescence value of S), and the bestmove must attain it. Successors on which 'ep square as recorded' and 'ep square only if capturable' disagree are skipped and counted. Evaluations = successors queried; distinct by (successor position, occurrence bucket). One session in three sends uci first and puts one or two commands a GUI may send at any time (isready, setoption - an option the engine advertised, or a standard one such as Clear Hash / Hash -, stop, ponderhit) behind a position command with a history; the verdicts are asked again after each. One session in forty repeats one shuffle cycle 254-259 times; one in ten is position P, go, ucinewgame, position P moves ... with P about to occur again.".into(),
        extra: serde_json::Map::new(),
        assumptions: vec![
            "occurrences are counted by the independent rules model over the positions after every prefix of the move list, start position included".into(),
            "only depth 1 is judged: what deeper plies do with the history is not specified by the property".into(),
        ],
        exhaustive: None,
    };
    conclude(ctx, &rep, ev, &replay_value, &shrink_value)
}

pub fn replay(path: &std::path::Path) -> i32 {
    let doc: Value = read_replay(path);
    let vs = replay_value(&doc["scenario"]);
    conclude_replay("C09", &vs, doc["class"].as_str())
}
