//! fv — deterministic simulation checks for the Flounder UCI engine.
//!   fv check <ID> [--tier quick|thorough] [--replay FILE]
//!   fv selftest [rules|determinism]
mod c03;
mod c04;
mod c05;
mod c06;
mod c07;
mod c09;
mod c11;
mod c12;
mod c13;
mod c15;
mod c16;
mod common;
mod gen;
mod realbin;
mod refsearch;
mod rng;
mod rules;
mod selftest;
mod simworld;
mod sworld;
mod usession;

use common::{Ctx, Tier};
use std::path::PathBuf;

fn usage() -> ! {
    eprintln!("usage: fv check <ID> [--tier quick|thorough] [--replay FILE] | fv selftest [name]");
    std::process::exit(2)
}

fn main() {
    // everything runs on a thread with a large stack (the engine's quiescence recursion is unbounded)
    let h = std::thread::Builder::new().stack_size(common::WORKER_STACK).spawn(real_main).unwrap();
    let _ = h.join();
}

fn real_main() {
    let args: Vec<String> = std::env::args().skip(1).collect();
    if args.is_empty() {
        usage();
    }
    let verif_dir = PathBuf::from(std::env::var("VERIF_DIR").unwrap_or_else(|_| "/verif".into()));
    let seed: u64 = std::env::var("VERIF_SEED")
        .ok()
        .and_then(|s| s.trim().parse().ok())
        .unwrap_or(1);
    let workers: usize = std::env::var("VERIF_WORKERS")
        .ok()
        .and_then(|s| s.parse().ok())
        .unwrap_or_else(|| std::thread::available_parallelism().map(|n| n.get()).unwrap_or(4).min(16));
    let scale: f64 = std::env::var("VERIF_SCALE")
        .ok()
        .and_then(|s| s.parse().ok())
        .unwrap_or(1.0);
    match args[0].as_str() {
        "check" => {
            if args.len() < 2 {
                usage();
            }
            let prop = args[1].to_uppercase();
            let mut tier = match std::env::var("VERIF_TIER").ok().as_deref() {
                Some("thorough") => Tier::Thorough,
                _ => Tier::Quick,
            };
            let mut replay: Option<PathBuf> = None;
            let mut i = 2;
            while i < args.len() {
                match args[i].as_str() {
                    "--tier" => {
                        tier = match args.get(i + 1).map(|s| s.as_str()) {
                            Some("thorough") => Tier::Thorough,
                            Some("quick") => Tier::Quick,
                            _ => usage(),
                        };
                        i += 2;
                    }
                    "--replay" => {
                        replay = Some(PathBuf::from(args.get(i + 1).cloned().unwrap_or_else(|| usage())));
                        i += 2;
                    }
                    _ => usage(),
                }
            }
            let ctx = Ctx {
                prop: prop.clone(),
                tier,
                seed,
                workers,
                verif_dir,
                scale,
                started: std::time::Instant::now(),
            };
            println!("VERIF_SEED={} property={} tier={} workers={} repo={}", seed, prop, tier.name(), workers, engine::REPO_PATH);
            let _ = common::BATCH_CTX.set(ctx.clone());
            if let Some(p) = &replay {
                let doc = common::read_replay(p);
                if doc.get("hang").is_some() {
                    std::process::exit(common::replay_hang(&prop, &doc));
                }
            }
            let code = match (prop.as_str(), replay) {
                ("C03", None) => c03::run(&ctx),
                ("C03", Some(p)) => c03::replay(&p),
                ("C04", None) => c04::run(&ctx),
                ("C04", Some(p)) => c04::replay(&p),
                ("C05", None) => c05::run(&ctx),
                ("C05", Some(p)) => c05::replay(&p),
                ("C07", None) => c07::run(&ctx),
                ("C07", Some(p)) => c07::replay(&p),
                ("C09", None) => c09::run(&ctx),
                ("C09", Some(p)) => c09::replay(&p),
                ("C11", None) => c11::run(&ctx),
                ("C11", Some(p)) => c11::replay(&p),
                ("C12", None) => c12::run(&ctx),
                ("C12", Some(p)) => c12::replay(&p),
                ("C13", None) => c13::run(&ctx),
                ("C13", Some(p)) => c13::replay(&p),
                ("C15", None) => c15::run(&ctx),
                ("C15", Some(p)) => c15::replay(&p),
                ("C06", None) => c06::run(&ctx),
                ("C06", Some(p)) => c06::replay(&p),
                ("C16", None) => c16::run(&ctx),
                ("C16", Some(p)) => c16::replay(&p),
                _ => {
                    eprintln!("harness error: no check for property {}", prop);
                    2
                }
            };
            std::process::exit(code);
        }
        "selftest" => {
            let which = args.get(1).map(|s| s.as_str()).unwrap_or("all");
            std::process::exit(selftest::run(which, seed, workers));
        }
        _ => usage(),
    }
}
