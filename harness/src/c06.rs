//! C06 — a search cut off by the clock leaves nothing behind.
//! World S, fault enumeration. Crash point = index of the clock read at which the
//! deadline first reads as expired; for one (position, depth) the reads 1..R of the
//! uninterrupted search are *all* the ways real time can interrupt it.

use crate::common::*;
use crate::refsearch::*;
use crate::rng::{derive, fnv1a, Rng, FNV_INIT};
use crate::simworld::*;
use crate::sworld::*;
use serde_json::{json, Value};

#[derive(Clone, Debug)]
pub struct Scenario {
    pub fen: String,
    pub depth: u8,
    pub key_seed: u64,
    /// forced-expiry read index of each interrupted search, in order
    pub expiries: Vec<u64>,
    /// use `Searcher::new()` instead of the state-reset hook
    pub really_new: bool,
    /// the same interruption points on a clock that runs evenly (1 ms per clock read, budget
    /// j ms) instead of jumping past a far deadline at read j: an engine that acts on a
    /// fraction of its budget (winds down at 95 %) sees the time in between
    pub gradual: bool,
}

impl Scenario {
    pub fn to_json(&self) -> Value {
        json!({"fen": self.fen, "depth": self.depth, "key_seed": self.key_seed,
               "expiries": self.expiries, "really_new": self.really_new, "gradual": self.gradual})
    }
    pub fn from_json(v: &Value) -> Option<Scenario> {
        Some(Scenario {
            fen: v["fen"].as_str()?.to_string(),
            depth: v["depth"].as_u64()? as u8,
            key_seed: v["key_seed"].as_u64().unwrap_or(0),
            expiries: v["expiries"].as_array()?.iter().filter_map(|x| x.as_u64()).collect(),
            really_new: v["really_new"].as_bool().unwrap_or(false),
            gradual: v["gradual"].as_bool().unwrap_or(false),
        })
    }
}

#[derive(Default)]
pub struct ScenarioOutcome {
    pub violations: Vec<(String, String)>,
    pub probes: Counters,
    pub faults: Counters,
    pub log_hash: u64,
    pub skipped: Option<String>,
    pub max_overshoot: u64,
}

/// Runs one scenario on this thread's bench. The position context must be prepared.
pub fn run_scenario(bench: &mut Bench, sc: &Scenario) -> ScenarioOutcome {
    let mut out = ScenarioOutcome::default();
    if let Err(e) = prepare_pos(bench, &sc.fen, sc.depth) {
        out.skipped = Some(format!("{:?}", e));
        return out;
    }
    let hmap = hash_map_for(bench, sc.key_seed);
    let board = bench.pos.as_ref().unwrap().board;
    let m = bench.pos.as_ref().unwrap().m_root[sc.depth as usize];
    let mut st = SimState::new(sc.key_seed, 0);
    st.ev(&format!("cfg c06 fen={} depth={} key_seed={} expiries={:?} new={}", sc.fen, sc.depth, sc.key_seed, sc.expiries, sc.really_new));
    if sc.gradual {
        st.clock.cost_read_ns = 1_000_000;
        st.clock.cost_node_ns = 0;
    } else {
        for (i, j) in sc.expiries.iter().enumerate() {
            st.clock.forced_expiry.push((i as u64, *j));
        }
    }
    st.max_nodes_per_search = 50_000_000;
    let sess = Session::new(st);
    let o = sess.fresh(&mut bench.searcher, sc.really_new);
    if o != Outcome::Returned {
        out.violations.push(("crash".into(), format!("fresh engine: {:?}", o)));
        out.log_hash = sess.st().log_hash;
        return out;
    }
    let rep0 = bench.searcher.verif_repetition_len();
    for (i, j) in sc.expiries.iter().enumerate() {
        let limit = if sc.gradual { std::time::Duration::from_millis(*j) } else { HUGE_LIMIT };
        let r = sess.search(&mut bench.searcher, &board, sc.depth, Some(limit));
        match &r.outcome {
            Outcome::Returned => {}
            o => {
                out.violations.push(("crash".into(), format!("interrupted search {}: {:?}", i, o)));
                break;
            }
        }
        let rec = r.rec.clone().unwrap();
        let interrupted = rec.first_expired_read.is_some();
        if interrupted {
            out.faults.add("deadline_expired_mid_search", 1);
            out.max_overshoot = out.max_overshoot.max(rec.nodes_after_deadline);
            let marks = &rec.info_marks;
            if *j <= 1 {
                out.probes.add("expiry_before_first_iteration", 1);
            }
            if marks.iter().any(|(reads, ..)| *j > *reads && *j <= *reads + 3) {
                out.probes.add("expiry_between_iterations", 1);
            }
            if rec.qnodes > 0 {
                out.probes.add("interrupted_search_had_quiescence_nodes", 1);
            }
        } else {
            out.probes.add("expiry_index_beyond_search_end", 1);
        }
        let rep = bench.searcher.verif_repetition_len();
        if rep != rep0 {
            out.violations.push((
                "repetition_stack_changed".into(),
                format!("game-history length {} before, {} after interrupted search {} (expiry read {})", rep0, rep, i, j),
            ));
        }
        // audit every cached claim
        let entries = bench.searcher.verif_tt_entries();
        out.probes.add("tt_entries_audited", entries.len() as u64);
        let mut unauditable = 0u64;
        let audit = audit_tt(bench, &entries, &hmap, sc.key_seed, &mut unauditable);
        out.probes.add("tt_entries_outside_the_audited_tree", unauditable);
        match audit {
            Ok(Some(d)) => {
                out.violations.push(("tt_claim_false".into(), format!("after interrupted search {} (expiry read {}): {}", i, j, d)));
            }
            Ok(None) => {}
            Err(e) => {
                out.skipped = Some(format!("{:?}", e));
            }
        }
    }
    // the completed search
    let r = sess.search(&mut bench.searcher, &board, sc.depth, None);
    match &r.outcome {
        Outcome::Returned => {
            let got = norm(r.score);
            if std::env::var("VERIF_TRACE").is_ok() {
                let mvv = r.mv.map(|mv| bench.reference.move_value(&board, &mv, sc.depth));
                eprintln!("trace c06 expiries={:?} final score={} mv={} m={} move_value={:?} memo={} qmemo={}", sc.expiries, r.score, move_str(&r.mv), m, mvv, bench.reference.memo.len(), bench.reference.q_memo.len());
            }
            if got != m {
                out.violations.push((
                    "final_value_wrong".into(),
                    format!("completed search after interruption(s) at reads {:?} reports {} (norm {}), reference M={}", sc.expiries, r.score, got, m),
                ));
            } else {
                match r.mv {
                    Some(mv) => match bench.reference.move_value(&board, &mv, sc.depth) {
                        Ok(v) if v != m => out.violations.push((
                            "final_move_not_attaining".into(),
                            format!("move {} is worth {} but the reported value is {}", mv.to_algebraic(), v, m),
                        )),
                        _ => {}
                    },
                    None => out.violations.push(("final_move_missing".into(), "completed search returned no move".into())),
                }
            }
            if let Some(rec) = &r.rec {
                // deeper-entry reuse in the final iteration would make M ambiguous
                let n = rec.info_marks.len();
                if n >= 1 {
                    let before = if n >= 2 { rec.info_marks[n - 2].3 } else { 0 };
                    let deeper_final = rec.info_marks[n - 1].3 - before;
                    if deeper_final > 0 {
                        out.probes.add("final_iteration_used_deeper_entry", 1);
                    }
                }
            }
            if bench.searcher.verif_repetition_len() != rep0 {
                out.violations.push(("repetition_stack_changed".into(), "after the completed search".into()));
            }
        }
        o => out.violations.push(("crash".into(), format!("completed search: {:?}", o))),
    }
    let st = sess.st();
    out.log_hash = st.log_hash;
    out.faults.add("forced_expiry", st.faults.forced_expiry);
    out.faults.add("key_redraw", st.faults.key_draws);
    out
}


// ---------------------------------------------------------------------------------
// The game history given with `position` across interrupted searches (World U, step-driven)
// ---------------------------------------------------------------------------------

#[derive(Clone, Debug)]
pub struct HistScenario {
    pub position_line: String,
    pub key_seed: u64,
    /// forced-expiry read of each interrupted `go movetime`, in order
    pub expiries: Vec<u64>,
    /// other parameters the interrupted `go`s carry besides `movetime` (e.g. " searchmoves
    /// e2e4 d2d4", " nodes 400000000"): whatever they set up must be gone with the search
    pub go_extra: String,
}

impl HistScenario {
    pub fn to_json(&self) -> Value {
        json!({"history": {"position_line": self.position_line, "key_seed": self.key_seed, "expiries": self.expiries, "go_extra": self.go_extra}})
    }
    pub fn from_json(v: &Value) -> Option<HistScenario> {
        let v = v.get("history")?;
        Some(HistScenario {
            position_line: v["position_line"].as_str()?.to_string(),
            key_seed: v["key_seed"].as_u64().unwrap_or(0),
            expiries: v["expiries"].as_array()?.iter().filter_map(|x| x.as_u64()).collect(),
            go_extra: v["go_extra"].as_str().unwrap_or("").to_string(),
        })
    }
}

/// `position <start> moves <history with repetitions>`, then clock-limited `go`s cut at the
/// given reads. The engine's record of the game must be what it was: same length, and the
/// same repetition verdict for every legal successor of the current position.
pub fn run_history(sc: &HistScenario, reference: &mut Reference) -> ScenarioOutcome {
    use crate::usession::*;
    let mut out = ScenarioOutcome::default();
    let mut st = SimState::new(sc.key_seed, 0);
    st.ev(&format!("cfg c06 history {}", sc.to_json()));
    st.max_nodes_per_search = 3_000_000;
    let (mut sess, o) = StepSession::start(st);
    if o != Outcome::Returned {
        out.violations.push(("crash".into(), format!("engine start: {:?}", o)));
        return out;
    }
    let o = sess.cmd(&sc.position_line);
    if o != Outcome::Returned {
        out.violations.push(("crash".into(), format!("'{}': {:?}", sc.position_line, o)));
        out.log_hash = sess.proc_.st.borrow().log_hash;
        return out;
    }
    let root = sess.board();
    let succ: Vec<(String, engine::board::Board)> = reference.gen.generate_moves(&root).iter().map(|m| (m.to_algebraic(), root.clone_with_move(m))).collect();
    let snapshot = |sess: &mut StepSession| -> Option<(usize, Vec<bool>)> {
        let fl = sess.fl.as_mut().unwrap();
        let (o, r) = sess.proc_.run(|| {
            let s = fl.verif_searcher();
            let len = s.verif_repetition_len();
            let v: Vec<bool> = succ.iter().map(|(_, b)| s.verif_is_repetition_draw(&root, b)).collect();
            (len, v)
        });
        if o != Outcome::Returned {
            return None;
        }
        r
    };
    let Some((len0, v0)) = snapshot(&mut sess) else {
        out.violations.push(("crash".into(), "repetition query before the search".into()));
        return out;
    };
    out.probes.add("history_scenarios", 1);
    if !sc.go_extra.is_empty() {
        out.probes.add("history_scenarios_whose_interrupted_gos_carry_other_parameters", 1);
    }
    out.probes.add("history_positions_recorded", len0 as u64);
    if v0.iter().any(|x| *x) {
        out.probes.add("history_scenarios_with_a_repeating_successor", 1);
    }
    for (i, j) in sc.expiries.iter().enumerate() {
        {
            let mut st = sess.proc_.st.borrow_mut();
            let ord = st.searches.len() as u64;
            st.clock.forced_expiry.push((ord, *j));
        }
        let o = sess.cmd(&format!("go movetime {}{}", HUGE_LIMIT.as_millis(), sc.go_extra));
        match o {
            Outcome::Returned => {}
            Outcome::Aborted(Abort::NodeCap) => {
                out.skipped = Some("step cap".into());
                break;
            }
            o => {
                out.violations.push(("crash".into(), format!("interrupted go {}: {:?}", i, o)));
                break;
            }
        }
        let interrupted = sess.proc_.st.borrow().searches.last().map(|s| s.first_expired_read.is_some()).unwrap_or(false);
        if interrupted {
            out.faults.add("deadline_expired_mid_search", 1);
        }
        let Some((len1, v1)) = snapshot(&mut sess) else {
            out.violations.push(("crash".into(), "repetition query after the search".into()));
            break;
        };
        if len1 != len0 {
            out.violations.push((
                "repetition_stack_changed".into(),
                format!("after '{}' and a go cut at clock read {}: the engine's game record holds {} positions, before the search {}", shorten(&sc.position_line), j, len1, len0),
            ));
            break;
        }
        if let Some(k) = (0..v0.len()).find(|&k| v0[k] != v1[k]) {
            out.violations.push((
                "repetition_verdict_changed".into(),
                format!("after '{}' and a go cut at clock read {}: move {} was {}a repetition draw before the search and is {}one after it", shorten(&sc.position_line), j, succ[k].0, if v0[k] { "" } else { "not " }, if v1[k] { "" } else { "not " }),
            ));
            break;
        }
    }
    // and a completed search afterwards still concludes what the history implies: depth 1,
    // every move that brings a position about for the third time is worth 0, every other
    // move minus the quiescence value of its successor (the reference of C09)
    if out.violations.is_empty() && out.skipped.is_none() {
        if let Some((_, hist)) = interpret_position(&sc.position_line) {
            let last = hist.last().unwrap().clone();
            let mut rec: std::collections::HashMap<crate::rules::Key, usize> = std::collections::HashMap::new();
            let mut fide: std::collections::HashMap<crate::rules::Key, usize> = std::collections::HashMap::new();
            for p in &hist {
                *rec.entry(p.key()).or_insert(0) += 1;
                *fide.entry(p.fide_key()).or_insert(0) += 1;
            }
            let mut vals: Vec<(String, i32)> = vec![];
            let mut ok = true;
            for m in last.legal_moves() {
                let sp = last.make(&m);
                let (a, b) = (rec.get(&sp.key()).copied().unwrap_or(0), fide.get(&sp.fide_key()).copied().unwrap_or(0));
                if (a >= 2) != (b >= 2) {
                    ok = false; // the two readings of "same position" disagree: not judged
                    break;
                }
                let v = if a >= 2 {
                    0
                } else {
                    match succ.iter().find(|(u, _)| *u == m.uci()) {
                        Some((_, sb)) => match reference.q(sb) {
                            Ok(q) => -q,
                            Err(_) => {
                                ok = false;
                                break;
                            }
                        },
                        None => {
                            ok = false;
                            break;
                        }
                    }
                };
                vals.push((m.uci(), v));
            }
            if ok && !vals.is_empty() {
                let best = vals.iter().map(|x| x.1).max().unwrap();
                let out0 = sess.out_len();
                let o = sess.cmd("go depth 1");
                if o == Outcome::Returned {
                    let lines = sess.out_since(out0);
                    let score = lines.iter().find(|l| l.starts_with("info depth 1 ")).and_then(|l| {
                        let t: Vec<&str> = l.split_whitespace().collect();
                        t.iter().position(|&x| x == "cp").and_then(|i| t.get(i + 1)).and_then(|s| s.parse::<i32>().ok())
                    });
                    let bm = lines.iter().find(|l| l.starts_with("bestmove ")).and_then(|l| l.split_whitespace().nth(1).map(|s| s.to_string()));
                    // an interrupted go may have completed several iterations before it was cut;
                    // if this depth-1 search was answered from one of their deeper results, its
                    // value is that of a deeper search and the depth-1 reference does not apply
                    let deeper = sess.proc_.st.borrow().searches.last().map(|s| s.tt_hits_deeper).unwrap_or(0);
                    if deeper > 0 {
                        out.probes.add("history_final_searches_skipped_deeper_result_reused", 1);
                        let st = sess.proc_.st.borrow();
                        out.log_hash = st.log_hash;
                        out.faults.add("forced_expiry", st.faults.forced_expiry);
                        return out;
                    }
                    out.probes.add("history_final_searches_compared", 1);
                    if rec.get(&last.key()).copied().unwrap_or(0) >= 2 {
                        out.probes.add("history_final_search_root_occurred_before", 1);
                    }
                    match (score, bm) {
                        (Some(sv), Some(mv)) => {
                            if norm(sv) != best {
                                out.violations.push(("final_value_wrong".into(), format!("after '{}' and go(s) cut at clock reads {:?}: go depth 1 reports {} but the reference with the game-history rule gives {}", shorten(&sc.position_line), sc.expiries, sv, best)));
                            } else if vals.iter().find(|(u, _)| *u == mv).map(|x| x.1) != Some(best) {
                                out.violations.push(("final_move_not_attaining".into(), format!("after '{}' and go(s) cut at clock reads {:?}: bestmove {} does not attain the reported value {}", shorten(&sc.position_line), sc.expiries, mv, best)));
                            }
                        }
                        _ => out.violations.push(("final_value_wrong".into(), format!("after '{}' and go(s) cut at clock reads {:?}: go depth 1 printed {:?}", shorten(&sc.position_line), sc.expiries, lines))),
                    }
                }
            }
        }
    }
    let st = sess.proc_.st.borrow();
    out.log_hash = st.log_hash;
    out.faults.add("forced_expiry", st.faults.forced_expiry);
    out
}

fn shorten(l: &str) -> String {
    if l.len() > 160 {
        format!("{}...({} bytes)", &l[..160], l.len())
    } else {
        l.to_string()
    }
}

pub fn gen_history_scenario(rng: &mut Rng) -> HistScenario {
    use crate::rules::Pos;
    let start = if rng.chance(1, 2) {
        Pos::startpos()
    } else {
        let p = crate::gen::random_position(rng);
        if p.is_valid() && !p.legal_moves().is_empty() { p } else { Pos::startpos() }
    };
    let root = if start == Pos::startpos() { "startpos".to_string() } else { format!("fen {}", fen_for_search(&start)) };
    let mut moves = crate::c09::gen_history(rng, &start);
    // the final position must have a legal move
    loop {
        let mut p = start.clone();
        for m in &moves {
            p = p.make(m);
        }
        if !p.legal_moves().is_empty() || moves.is_empty() {
            break;
        }
        moves.pop();
    }
    let mut line = format!("position {}", root);
    if !moves.is_empty() {
        line.push_str(" moves ");
        line.push_str(&crate::gen::moves_uci(&moves).join(" "));
    }
    let n = rng.range(1, 3);
    // half of the sessions are cut inside the first iteration (nothing deeper than the final
    // depth-1 search gets cached, so its value can be judged)
    let early = rng.chance(1, 2);
    // one session in three: the interrupted go's carry further parameters
    let go_extra = if rng.chance(1, 3) {
        let mut p = start.clone();
        for m in &moves {
            p = p.make(m);
        }
        let mut ms = crate::gen::moves_uci(&p.legal_moves());
        rng.shuffle(&mut ms);
        let k = (rng.range(1, 3) as usize).min(ms.len());
        match rng.below(4) {
            0 | 1 => format!(" searchmoves {}", ms[..k].join(" ")),
            2 => " nodes 400000000".to_string(),
            _ => " mate 30".to_string(),
        }
    } else {
        String::new()
    };
    HistScenario { position_line: line, key_seed: rng.next_u64(), expiries: (0..n).map(|_| if early { rng.range(1, 30) } else { rng.log_range(1, 4000) }).collect(), go_extra }
}

pub fn replay_value(v: &Value) -> Vec<Violation> {
    if let Some(h) = HistScenario::from_json(v) {
        let o = with_bench(|b| run_history(&h, &mut b.reference));
        return o
            .violations
            .into_iter()
            .map(|(class, detail)| Violation { prop: "C06".into(), class, detail, scenario: h.to_json(), sim_index: 0, sim_seed: 0, log_hash: o.log_hash })
            .collect();
    }
    let Some(sc) = Scenario::from_json(v) else { return vec![] };
    with_bench(|b| {
        if let Ok(n) = std::env::var("VERIF_C06_WARM") {
            // debugging aid: run the scenarios with earlier expiry reads first, on the same bench
            let n: u64 = n.parse().unwrap_or(0);
            for j in 1..=n {
                let mut w = sc.clone();
                w.expiries = vec![j];
                let o = run_scenario(b, &w);
                eprintln!("warm {} -> {:?}", j, o.violations.iter().map(|x| x.0.clone()).collect::<Vec<_>>());
            }
        }
        let o = run_scenario(b, &sc);
        o.violations
            .into_iter()
            .map(|(class, detail)| Violation {
                prop: "C06".into(),
                class,
                detail,
                scenario: sc.to_json(),
                sim_index: 0,
                sim_seed: 0,
                log_hash: o.log_hash,
            })
            .collect()
    })
}

pub fn shrink_value(v: &Value) -> Vec<Value> {
    if let Some(h) = HistScenario::from_json(v) {
        let mut out = vec![];
        if !h.go_extra.is_empty() {
            let mut n = h.clone();
            n.go_extra = String::new();
            out.push(n.to_json());
        }
        if h.expiries.len() > 1 {
            for i in 0..h.expiries.len() {
                let mut n = h.clone();
                n.expiries.remove(i);
                out.push(n.to_json());
            }
        }
        for i in 0..h.expiries.len() {
            let j = h.expiries[i];
            for c in [1, j / 2, j.saturating_sub(1)] {
                if c >= 1 && c < j {
                    let mut n = h.clone();
                    n.expiries[i] = c;
                    out.push(n.to_json());
                }
            }
        }
        // shorter histories: drop moves from the front by re-rooting is not sound for a
        // repetition history; drop them from the back in pairs
        if let Some(idx) = h.position_line.find(" moves ") {
            let head = &h.position_line[..idx];
            let ms: Vec<&str> = h.position_line[idx + 7..].split_whitespace().collect();
            for keep in [ms.len() / 2, ms.len().saturating_sub(2), ms.len().saturating_sub(1)] {
                if keep < ms.len() {
                    let mut n = h.clone();
                    n.position_line = if keep == 0 { head.to_string() } else { format!("{} moves {}", head, ms[..keep].join(" ")) };
                    out.push(n.to_json());
                }
            }
        }
        if h.key_seed != 0 {
            let mut n = h.clone();
            n.key_seed = 0;
            out.push(n.to_json());
        }
        return out;
    }
    let Some(sc) = Scenario::from_json(v) else { return vec![] };
    let mut out = vec![];
    if sc.really_new {
        let mut n = sc.clone();
        n.really_new = false;
        out.push(n.to_json());
    }
    // fewer interruptions
    if sc.expiries.len() > 1 {
        for i in 0..sc.expiries.len() {
            let mut n = sc.clone();
            n.expiries.remove(i);
            out.push(n.to_json());
        }
    }
    // lower depth
    if sc.depth > 1 {
        let mut n = sc.clone();
        n.depth -= 1;
        out.push(n.to_json());
    }
    // earlier expiry
    for i in 0..sc.expiries.len() {
        let j = sc.expiries[i];
        for cand in [1, j / 2, j.saturating_sub(10), j.saturating_sub(1)] {
            if cand >= 1 && cand < j {
                let mut n = sc.clone();
                n.expiries[i] = cand;
                out.push(n.to_json());
            }
        }
    }
    if sc.key_seed != 0 {
        let mut n = sc.clone();
        n.key_seed = 0;
        out.push(n.to_json());
    }
    out
}

pub fn run(ctx: &Ctx) -> i32 {
    let positions = ctx.n(192, 480);
    let exhaustive_limit: u64 = match ctx.tier {
        Tier::Quick => 0,
        Tier::Thorough => 6000,
    };
    // cost control (deterministic, in nodes): each scenario repeats a full search
    let max_engine_nodes: u64 = match ctx.tier {
        Tier::Quick => 30_000,
        Tier::Thorough => 150_000,
    };
    let ref_tree_budget: u64 = match ctx.tier {
        Tier::Quick => 40_000,
        Tier::Thorough => 400_000,
    };
    let rep = run_batch(positions, ctx.workers, |i| {
        let seed = derive(ctx.seed, "C06", i);
        let mut rng = Rng::new(seed);
        let mut res = SimResult::default();
        let mut log_hash = FNV_INIT;
        with_bench(|bench| {
            // a position whose reference stays within budget
            let mut tries = 0;
            let (fen, depth) = loop {
                tries += 1;
                let p = sample_position(&mut rng);
                let fen = fen_for_search(&p);
                let depth = match rng.below(6) {
                    0 => 1,
                    1 | 2 => 2,
                    _ => 3,
                } as u8;
                bench.reference.tree_node_budget = ref_tree_budget;
                bench.max_engine_nodes = max_engine_nodes;
                bench.reference.q_node_budget = 100_000;
                match prepare_pos(bench, &fen, depth) {
                    Ok(()) => break (fen, depth),
                    Err(RefError::EngineCrash(m)) => {
                        res.violations.push(Violation {
                            prop: "C06".into(),
                            class: "crash".into(),
                            detail: format!("reference quiescence crashed: {}", m),
                            scenario: json!({"fen": fen, "depth": depth, "key_seed": 0, "expiries": [], "really_new": false}),
                            sim_index: i,
                            sim_seed: seed,
                            log_hash: 0,
                        });
                        return;
                    }
                    Err(_) => {
                        res.probes.add("positions_skipped_reference_budget", 1);
                        if tries > 50 {
                            return;
                        }
                    }
                }
            };
            let total_reads = bench.pos.as_ref().unwrap().total_reads;
            let key_seed = rng.next_u64();
            // which expiry points
            let mut points: Vec<u64> = vec![];
            let exhaustive = total_reads <= exhaustive_limit;
            if exhaustive {
                points = (1..=total_reads).collect();
                res.probes.add("positions_enumerated_exhaustively", 1);
            } else {
                for j in 1..=32.min(total_reads) {
                    points.push(j);
                }
                // iteration boundaries of the uninterrupted search
                let marks: Vec<u64> = {
                    let st = SimState::new(key_seed, 0);
                    let sess = Session::new(st);
                    sess.fresh(&mut bench.searcher, false);
                    let b = bench.pos.as_ref().unwrap().board;
                    let r = sess.search(&mut bench.searcher, &b, depth, Some(HUGE_LIMIT));
                    r.rec.map(|r| r.info_marks.iter().map(|m| m.0).collect()).unwrap_or_default()
                };
                for mk in marks {
                    for d in 0..=4u64 {
                        let j = mk + d;
                        if j >= 1 && j <= total_reads {
                            points.push(j);
                        }
                        if mk > d && mk - d >= 1 {
                            points.push(mk - d);
                        }
                    }
                }
                let extra = match ctx.tier {
                    Tier::Quick => 64,
                    Tier::Thorough => 400,
                };
                for _ in 0..extra {
                    points.push(rng.range(1, total_reads.max(1)));
                }
                points.sort();
                points.dedup();
            }
            let mut scenarios: Vec<Scenario> = points
                .iter()
                .map(|j| Scenario {
                    fen: fen.clone(),
                    depth,
                    key_seed,
                    expiries: vec![*j],
                    really_new: false,
                    gradual: false,
                })
                .collect();
            // a third of the single interruption points again on an evenly running clock
            let gradual_points: Vec<u64> = points.iter().filter(|_| rng.chance(1, 3)).cloned().collect();
            for j in gradual_points {
                scenarios.push(Scenario { fen: fen.clone(), depth, key_seed, expiries: vec![j], really_new: false, gradual: true });
            }
            // sequences of two and three interruptions, other key sets, a really fresh engine
            let multi = match ctx.tier {
                Tier::Quick => 12,
                Tier::Thorough => 60,
            };
            for k in 0..multi {
                let n = 2 + (k % 2) as usize;
                let expiries: Vec<u64> = (0..n).map(|_| rng.range(1, total_reads.max(1))).collect();
                scenarios.push(Scenario {
                    fen: fen.clone(),
                    depth,
                    key_seed: if k % 3 == 0 { rng.next_u64() } else { key_seed },
                    expiries,
                    really_new: k % 6 == 5,
                    gradual: k % 4 == 1,
                });
            }
            let mut first_violation_per_class: std::collections::BTreeMap<String, ()> = Default::default();
            for sc in &scenarios {
                let t0 = std::time::Instant::now();
                let o = run_scenario(bench, sc);
                if std::env::var("VERIF_DEBUG").is_ok() && t0.elapsed().as_secs_f64() > 0.15 {
                    eprintln!("slow scenario {:.2}s {:?} refnodes={} qnodes={}", t0.elapsed().as_secs_f64(), sc, bench.reference.tree_nodes, bench.reference.q_nodes_total);
                }
                res.evaluations += 1;
                log_hash = fnv1a(log_hash, &o.log_hash.to_le_bytes());
                res.probes.merge(&o.probes);
                res.faults.merge(&o.faults);
                res.probes.max("max_overshoot_nodes", o.max_overshoot);
                if o.skipped.is_some() {
                    res.probes.add("scenarios_with_skipped_audit", 1);
                }
                if sc.expiries.len() > 1 {
                    res.probes.add("multi_interruption_scenarios", 1);
                }
                if sc.really_new {
                    res.probes.add("really_new_searcher_scenarios", 1);
                }
                if sc.gradual {
                    res.probes.add("scenarios_on_an_evenly_running_clock", 1);
                }
                res.distinct.push(hash_str(&format!("{}|{}|{:?}|{}", sc.fen, sc.depth, sc.expiries, sc.gradual)));
                for (class, detail) in o.violations {
                    if first_violation_per_class.insert(class.clone(), ()).is_none() {
                        res.violations.push(Violation {
                            prop: "C06".into(),
                            class,
                            detail,
                            scenario: sc.to_json(),
                            sim_index: i,
                            sim_seed: seed,
                            log_hash: o.log_hash,
                        });
                    }
                }
            }
            // the game history given with `position`, across interrupted `go`s (World U)
            let nh = match ctx.tier {
                Tier::Quick => 6,
                Tier::Thorough => 40,
            };
            for _ in 0..nh {
                let h = gen_history_scenario(&mut rng);
                let o = run_history(&h, &mut bench.reference);
                res.evaluations += 1;
                log_hash = fnv1a(log_hash, &o.log_hash.to_le_bytes());
                res.probes.merge(&o.probes);
                res.faults.merge(&o.faults);
                res.distinct.push(hash_str(&h.to_json().to_string()));
                for (class, detail) in o.violations {
                    if first_violation_per_class.insert(class.clone(), ()).is_none() {
                        res.violations.push(Violation { prop: "C06".into(), class, detail, scenario: h.to_json(), sim_index: i, sim_seed: seed, log_hash: o.log_hash });
                    }
                }
            }
            if i < 4 {
                res.sample = Some(json!({"fen": fen, "depth": depth, "reads_of_uninterrupted_search": total_reads,
                    "expiry_points_run": points.len(), "exhaustive_in_crash_point_dimension": exhaustive,
                    "reference_value": bench.pos.as_ref().unwrap().m_root[depth as usize]}));
            }
        });
        res.log_hash = log_hash;
        res
    });
    let ev = Evidence {
        level: "fault_enumeration",
        rule: "Positions from seeded playouts of the rules model (kept when the unpruned reference fits its node budget), depth 1..3. Crash point = index j of the clock read at which the deadline first reads expired (forced-expiry clock). Quick: j in 1..32, every iteration boundary +-4, 64 seeded j per position; thorough: every j in 1..R for positions with R<=6000 reads (exhaustive in the crash-point dimension for that position) else 400 seeded j; plus sequences of 2-3 interruptions, other key sets, and really fresh engines. After each interrupted search: history length unchanged and every cached claim about a position of the tree (interior nodes; horizon positions too, should the engine cache them) audited against the reference; then a completed search must report M and a move attaining it. Besides, per position a few World-U sessions: `position <start> moves <history with planted repetitions>` followed by 1-3 `go movetime` cut at seeded clock reads; after each, the engine's game record must have the same length and give the same repetition verdict for every legal successor as before the search, and a final `go depth 1` must report the value the history implies (third occurrences worth 0) with a move attaining it, unless it was answered from a deeper result cached by a completed iteration of an interrupted go (instrumented, counted). A case = (position, depth, expiry sequence) or (position command, expiry sequence); all are non-trivial. A third of the single interruption points and a quarter of the sequences also run on an evenly running clock (1 ms per clock read, budget j ms); the interrupted go lines of a third of the history sessions carry searchmoves / nodes / mate.".into(),
        extra: serde_json::Map::new(),
        assumptions: vec![
            "reference M takes the engine's move generator, make_move, static evaluation and full-window quiescence as given".into(),
            "positions whose reference exceeds the node budget are skipped (counted in reach_probes.positions_skipped_reference_budget)".into(),
            "the engine learns about time only through SearchTimer; two real executions whose deadline falls between the same two clock reads are indistinguishable to it".into(),
        ],
        exhaustive: Some(false),
    };
    conclude(ctx, &rep, ev, &replay_value, &shrink_value)
}

pub fn replay(path: &std::path::Path) -> i32 {
    let doc: Value = crate::common::read_replay(path);
    let vs = replay_value(&doc["scenario"]);
    conclude_replay("C06", &vs, doc["class"].as_str())
}
