#!/bin/bash
# Runs every quick check under several seeds on the unchanged tree: all must exit 0.
# usage: seed_sweep.sh <first seed> <last seed> [tier]
cd "$(dirname "$0")"
export VERIF_DIR="${VERIF_DIR:-$PWD}"
TIER=${3:-quick}
bad=0
for seed in $(seq $1 $2); do
  for id in C03 C04 C05 C06 C07 C09 C11 C12 C13 C15 C16; do
    out=$(VERIF_SEED=$seed ./check $id --tier $TIER 2>&1); code=$?
    echo "seed=$seed $id exit=$code $(echo "$out" | grep -E '^\[' | cut -c1-160)"
    if [ $code -ne 0 ]; then bad=$((bad+1)); echo "$out" | grep -E "VIOLATION|class=|harness" | head -5; fi
  done
done
echo "SWEEP DONE bad=$bad"
